#!/bin/sh
# Soundness sweep: the checks with seeded randomness, on the unchanged tree, for several seeds.
# Every run must exit 0 (a VIOLATION here is either a new genuine finding or a false alarm -- both need attention).
cd "$(dirname "$0")/.."
seeds=${1:-"2 3 4 5 6"}
tier=${2:-quick}
ev=$(mktemp -d)
for s in $seeds; do
  for p in C08 C09 C10 C15 C16 C18 C01 C02 C03 C04 C05 C07 C11; do
    VERIF_SEED=$s VERIF_EVIDENCE_DIR=$ev VERIF_REPLAY_DIR=$ev/replays ./check $p --tier $tier > $ev/$p-$s.log 2>&1
    code=$?
    echo "seed=$s $p exit=$code $(grep -c '^VIOLATION' $ev/$p-$s.log) violations $(grep '^VIOLATION' $ev/$p-$s.log | head -1 | cut -c1-160)"
  done
done
echo "logs and replays in $ev"
