#!/usr/bin/env python3
"""Regenerates MANIFEST.json from the table below (keeps the manifest consistent with the checks)."""
import json
import os

HERE = os.path.dirname(os.path.dirname(os.path.abspath(__file__)))

TB = ("TLC 1.8 (tla2tools.jar) and the TLA+ reference semantics in spec/; harness/render.py (abstract value -> YAML / "
      "objdump text; YAML round trip re-checked on every rule); the exact span projection of harness/matchpipe.py; "
      "PyYAML; bounded universes (spec/U_*.tla with the constants of the Export_*_<tier>.cfg files)")

CHECKS = {
    "C01": ("model_checking", "4.3, 7 C01",
            "TLC model-checks that the recursive matcher MI equals the literal wording of C01 and is window-independent "
            "(MC_C01) on the whole universe; the same universe (all item lists x all listings x the 4 flag settings) is "
            "executed on the real code in 9 modes and every observation is validated by TLC against the spec (Trace_Match).",
            "TLA+ spec (JasmPattern MI/MO) + TLC exhaustive small-scope universe; replay into real code; TLC trace validation"),
    "C02": ("model_checking", "7 C02",
            "MC_C02: times lo..hi == union of r-fold unrolling for every repeated node kind; universe of every node kind x "
            "every bound pair x both YAML spellings x run listings executed on the code and validated by TLC.",
            "TLA+ spec (MIN/MIS unrolling law) + TLC; exhaustive bounded universe replayed into the code; TLC trace validation"),
    "C03": ("model_checking", "7 C03",
            "MC_C03: the alternation / sequence / permutation laws at instruction and operand level; nestings to depth 2 at "
            "instruction level, operand level and in $deref fields executed on the code and validated by TLC.",
            "TLA+ spec (set-valued or/and/perm) + TLC law check; universe replay; TLC trace validation"),
    "C04": ("model_checking", "7 C04",
            "MC_C04: every span of $not X has length one and [$not X, Y] starts at i iff X fails at i and Y matches at i+1 "
            "(instruction and operand level); leading/inner/trailing/repeated/operand $not executed on the code, full match "
            "text observed, validated by TLC.",
            "TLA+ spec ($not as one-step complement) + TLC; universe replay; TLC trace validation of spans"),
    "C05": ("model_checking", "7 C05",
            "MC_C05 (C05_Subst): environment-threading matcher == exists assignment making the capture-free instance match; "
            "instruction, operand and register-family captures (all widths, prefix/extension operand chains, later uses in "
            "$or/$not/times) executed on the code and validated by TLC.",
            "TLA+ spec (capture environments, register tables) + TLC substitution law; universe replay; TLC trace validation"),
    "C07": ("model_checking", "7 C07",
            "Every reported text must be string-equal to whole records of the stream TLC validated (C07_Aligned), every address "
            "must be the first covered instruction's (C07_Addr); every operator in leading position, items with fewer/equal/more "
            "operand patterns than operands, with and without the shipped @any, both match modes.",
            "TLA+ spec (JasmScan + Encode) + TLC; universe replay; TLC trace validation of alignment and addresses"),
    "C11": ("model_checking", "4.4, 7 C11",
            "MC_Scan: the scan state machine (Report/Finish) is sound w.r.t. ValidScan and has the consequences C11 lists, for "
            "every span set over <= MaxN instructions; the all-matches and first-match results of the code on non-nullable "
            "patterns with several possible ends are validated by TLC as behaviours of that scan.",
            "TLA+ state machine JasmScan model-checked by TLC; code traces validated against it by TLC"),
    "C12": ("model_checking", "7 C12",
            "One trace per (rule, listing) holding all 2x2x2 mode combinations, each from a freshly constructed operation; TLC "
            "requires all of them to be explained by one scan result (first = prefix of all, addresses element-wise, booleans).",
            "TLA+ spec (Result derived from one `reported`) + TLC trace validation of all eight modes"),
}


def main():
    checks = []
    for pid, (level, ref, text, tech) in sorted(CHECKS.items()):
        checks.append({
            "property_id": pid,
            "quick_cmd": f"./check {pid} --tier quick",
            "thorough_cmd": f"./check {pid} --tier thorough",
            "evidence_file": f"/verif/evidence/{pid}.json",
            "replay_cmd_template": f"./check {pid} --replay {{path}}",
            "engine": "tlc",
            "level_claimed": {"category": level, "text": text, "design_ref": f"DESIGN.md section {ref}"},
            "level_note": TB,
            "technique": tech,
        })
    with open(os.path.join(HERE, "properties.jsonl")) as f:
        all_ids = [json.loads(l)["id"] for l in f if l.strip()]
    na = [{"property_id": p, "reason": NOT_YET.get(p, "check under construction in this round; not claimed yet")}
          for p in all_ids if p not in CHECKS]
    man = {
        "version": 1,
        "setup_cmd": "./check setup",
        "hooks": {
            "guard": "JASM_VERIF",
            "enable": "none needed: the checks observe the public API (JASMConfig().get_info, MasterOfPuppets.regex_rule, "
                      "the return modes, the module logger, exceptions, a PATH shim for objdump); no hook is compiled into /repo",
            "baseline_off_cmd": "cd /repo && /venv/bin/python -m pytest -ra -q -p no:cacheprovider --timeout=900 "
                                "--continue-on-collection-errors",
            "source_commits": [],
            "add_only": True,
        },
        "engines": [{"name": "tlc", "path": "/opt/veriftools/tla/tla2tools.jar",
                     "serves_properties": sorted(CHECKS), "kind_free_text":
                     "explicit-state model checker for the TLA+ specification in /verif/spec; also decides the traces recorded "
                     "from the real code (Trace_*.tla)"}],
        "checks": checks,
        "not_applicable": na,
        "notes": "See DESIGN.md. Fix commits in /repo are listed in known_findings.json (status fixed).",
    }
    with open(os.path.join(HERE, "MANIFEST.json"), "w") as f:
        json.dump(man, f, indent=1)
    print(f"MANIFEST.json: {len(checks)} checks, {len(na)} not claimed")


NOT_YET = {}

if __name__ == "__main__":
    main()
