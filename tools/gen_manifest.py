#!/usr/bin/env python3
"""Regenerates MANIFEST.json from the table below (keeps the manifest consistent with the checks)."""
import json
import os

HERE = os.path.dirname(os.path.dirname(os.path.abspath(__file__)))

TB = ("TLC 1.8 (tla2tools.jar) and the TLA+ reference semantics in spec/; harness/render.py (abstract value -> YAML / "
      "objdump text; YAML round trip re-checked on every rule); the exact span projection of harness/matchpipe.py; "
      "PyYAML; bounded universes (spec/U_*.tla with the constants of the Export_*_<tier>.cfg files)")

CHECKS = {
    "C01": ("model_checking", "4.3, 7 C01",
            "TLC model-checks that the recursive matcher MI equals the literal wording of C01 and is window-independent "
            "(MC_C01) on the whole universe; the same universe (all item lists x all listings x the 4 flag settings) is "
            "executed on the real code in 9 modes and every observation is validated by TLC against the spec (Trace_Match); plus "
            "seeded random patterns whose scope TLC checks itself.",
            "TLA+ spec (JasmPattern MI/MO) + TLC exhaustive small-scope universe; replay into real code; TLC trace validation"),
    "C02": ("model_checking", "7 C02",
            "MC_C02: times lo..hi == union of r-fold unrolling for every repeated node kind; MC_Compile: the compile scheme as "
            "implemented refines the semantics on the encoded stream (control with the pinned schemes must fail); universe of every node kind x "
            "every bound pair x both YAML spellings x run listings executed on the code and validated by TLC.",
            "TLA+ spec (MIN/MIS unrolling law) + TLC; exhaustive bounded universe replayed into the code; TLC trace validation"),
    "C03": ("model_checking", "7 C03",
            "MC_C03: the alternation / sequence / permutation laws at instruction and operand level; nestings to depth 2 at "
            "instruction level, operand level and in $deref fields executed on the code and validated by TLC.",
            "TLA+ spec (set-valued or/and/perm) + TLC law check; universe replay; TLC trace validation"),
    "C04": ("model_checking", "7 C04",
            "MC_C04: every span of $not X has length one and [$not X, Y] starts at i iff X fails at i and Y matches at i+1 "
            "(instruction and operand level); leading/inner/trailing/repeated/operand $not executed on the code, full match "
            "text observed, validated by TLC.",
            "TLA+ spec ($not as one-step complement) + TLC; universe replay; TLC trace validation of spans"),
    "C05": ("model_checking", "7 C05",
            "MC_C05 (C05_Subst): environment-threading matcher == exists assignment making the capture-free instance match; "
            "instruction, operand and register-family captures (all widths, prefix/extension operand chains, later uses in "
            "$or/$not/times) executed on the code and validated by TLC.",
            "TLA+ spec (capture environments, register tables) + TLC substitution law; universe replay; TLC trace validation"),
    "C06": ("model_checking", "7 C06",
            "MC_C06 (C06_Agree): the compiled-side $deref semantics on the normaliser's text holds iff pattern and operand have "
            "the same present components; the universe of $deref patterns x AT&T operands (same shape, every one-component "
            "mutation, other shapes, register, immediate) is printed by TLC as objdump text and run end to end through the real "
            "parser and matcher; TLC validates.",
            "TLA+ spec (ParseMem/MDeref + JasmObjdump NormText) + TLC; end-to-end replay from objdump text; TLC trace validation"),
    "C08": ("model_checking", "7 C08",
            "MC_Objdump: generator and recogniser of the objdump grammar agree; every abstract listing over every line kind is "
            "printed by TLC and parsed by the real code (stream must be Encode(Stream(listing))); real objdump output of random "
            "bytes (seeded; sampling, not enumeration) is parsed in chunks and TLC validates one stream instruction per "
            "instruction line with that line's address and mnemonic, and that the parser never fails.",
            "TLA+ spec (JasmObjdump Stream/ParseLine) + TLC; printed listings replayed; real objdump traces validated by TLC"),
    "C09": ("model_checking", "7 C09",
            "Every operand form of C09 over all general-purpose registers and widths, scales, displacements and 0-3 operand mixes "
            "printed by TLC and parsed by the code; assembled AT&T templates disassembled by the real objdump; TLC validates the "
            "normal form (NormText / NormOfText) and operand count/order.",
            "TLA+ spec (NormText, NormOfText, SplitOps) + TLC; replay + real as/objdump traces validated by TLC"),
    "C10": ("model_checking", "4.1, 7 C10",
            "MC_Encode: Decode(Encode(L)) = L and injectivity for separator-free fields (control config without the premise must "
            "fail); every stream observed from printed listings and from real objdump output is decoded BY TLC, re-encoded and "
            "compared, and every field is checked to be separator-free.",
            "TLA+ spec (Encode/Decode/FieldOK) model-checked by TLC incl. negative control; code streams validated by TLC"),
    "C13": ("model_checking", "4.5, 7 C13",
            "For every rule document of the universe (every sequence of macro uses in the supported forms x every split of the "
            "definitions between rule file and extra macro files) TLC computes the manually inlined document (InlineRef); the "
            "real code compiles both; equal matcher text or, failing that, equal behaviour on a listing universe is required.",
            "TLA+ spec (JasmMacro InlineRef over Doc trees) + TLC; both documents compiled by the code; TLC trace validation"),
    "C14": ("model_checking", "4.6, 7 C14",
            "JasmSession (process-global configuration written by Construct, read by Match) model-checked with Atomic = TRUE; "
            "control with Atomic = FALSE must fail; every history of <= MaxOps complete operations (quick tier: <= 2 plus every A-B-A) over the 18 rule documents of spec/MC_C14.tla, with inputs replaced at the same path, is "
            "replayed in one real process, each operation compared with the same operation in a fresh process, and every "
            "history trace is validated by TLC against JasmSession's actions (Trace_Session); the inductive core is also "
            "discharged by Apalache for unbounded histories (extra evidence).",
            "TLA+ state machine JasmSession + TLC; all histories replayed in real processes; TLC trace validation"),
    "C15": ("model_checking", "4.6, 7 C15",
            "JasmBinary (Argv, abstract Objdump) model-checked; for assembled objects x every sections list of the spec's "
            "universe, JASM's binary route (argv recorded by a PATH shim) is compared by TLC with the text route on the output "
            "of the command line the specification prescribes: argv, failure parity, stream, results.",
            "TLA+ spec (JasmBinary Argv/Objdump) + TLC; real objdump on both routes; TLC trace validation"),
    "C16": ("model_checking", "4.2, 7 C16",
            "MC_C16: action property `a presentation edit leaves Stream unchanged' over every sequence of <= MaxEdits edits; "
            "every reachable state is printed by TLC, parsed by the real code and validated (stream and rule results); real "
            "objdump printings of one object under different options must give one stream.",
            "TLA+ state machine of presentation edits, action property checked by TLC; reachable states replayed; TLC validation"),
    "C17": ("fault_enumeration", "7 C17",
            "JasmOperation (pipeline stages with fault injection) model-checked (C17_Loud, FaultEnds); every fault kind of the "
            "spec is realised in every listed concrete way, injected alone into a valid pair whose fault-free verdict is "
            "'found', in assembly and binary mode; TLC validates the terminal outcome.",
            "TLA+ spec of the operation pipeline with faults + TLC; single-fault enumeration on the real code; TLC validation"),
    "C18": ("model_checking", "7 C18",
            "MC_C18: the digit-sequence order HexLE equals the arithmetic order for all numerals up to MaxDigits digits in "
            "every spelling; the canonical tagging is an allowed tagging; ranges (min = max, 0x / case / leading zeros) x "
            "targets at and around both bounds and with other digit counts x direct / conditional / indirect branches and "
            "non-branches run on the code; TLC validates the observed stream (AllowedTagging) and the matches.",
            "TLA+ spec (JasmObserve ValidAddr, HexLE) + TLC; universe replay; TLC trace validation"),
    "C19": ("model_checking", "4.5, 7 C19",
            "For every position a reference can occupy x list macro / string macro / undefined name, TLC decides from the "
            "specification (Unresolved after InlineRef, BadMacroNames) whether compilation must fail and which names the error "
            "must mention; the real compiler's outcome, error text and matcher text are validated by TLC.",
            "TLA+ spec (JasmMacro Unresolved/MustFail) + TLC; documents compiled by the code; TLC trace validation"),
    "C20": ("model_checking", "4.6, 7 C20",
            "The full cross product of command-line options of spec/JasmCLI.tla is run as real processes; the library API on "
            "the same inputs is the oracle; TLC validates usage errors, exit status, the verdict line and one address line per "
            "element in order (Conforms).",
            "TLA+ spec (JasmCLI UsageError/ExpectedLines) + TLC; real CLI processes; TLC trace validation"),
    "C07": ("model_checking", "7 C07",
            "Every reported text must be string-equal to whole records of the stream TLC validated (C07_Aligned), every address "
            "must be the first covered instruction's (C07_Addr); every operator in leading position, items with fewer/equal/more "
            "operand patterns than operands, with and without the shipped @any, both match modes; the executions of the repository's "
            "own test configuration are validated the same way (Trace_Repo, rule trees inlined and parsed by TLC).",
            "TLA+ spec (JasmScan + Encode) + TLC; universe replay; TLC trace validation of alignment and addresses"),
    "C11": ("model_checking", "4.4, 7 C11",
            "MC_Scan: the scan state machine (Report/Finish) is sound w.r.t. ValidScan and has the consequences C11 lists, for "
            "every span set over <= MaxN instructions; the all-matches and first-match results of the code on non-nullable "
            "patterns with several possible ends are validated by TLC as behaviours of that scan.",
            "TLA+ state machine JasmScan model-checked by TLC; code traces validated against it by TLC"),
    "C12": ("model_checking", "7 C12",
            "One trace per (rule, listing) holding all 2x2x2 mode combinations, each from a freshly constructed operation; TLC "
            "requires all of them to be explained by one scan result (first = prefix of all, addresses element-wise, booleans).",
            "TLA+ spec (Result derived from one `reported`) + TLC trace validation of all eight modes"),
}


def main():
    checks = []
    for pid, (level, ref, text, tech) in sorted(CHECKS.items()):
        checks.append({
            "property_id": pid,
            "quick_cmd": f"./check {pid} --tier quick",
            "thorough_cmd": f"./check {pid} --tier thorough",
            "evidence_file": f"/verif/evidence/{pid}.json",
            "replay_cmd_template": f"./check {pid} --replay {{path}}",
            "engine": "tlc",
            "level_claimed": {"category": level, "text": text, "design_ref": f"DESIGN.md section {ref}"},
            "level_note": TB,
            "technique": tech,
        })
    with open(os.path.join(HERE, "properties.jsonl")) as f:
        all_ids = [json.loads(l)["id"] for l in f if l.strip()]
    na = [{"property_id": p, "reason": NOT_YET.get(p, "check under construction in this round; not claimed yet")}
          for p in all_ids if p not in CHECKS]
    man = {
        "version": 1,
        "setup_cmd": "./check setup",
        "hooks": {
            "guard": "JASM_VERIF",
            "enable": "none needed: the checks observe the public API (JASMConfig().get_info, MasterOfPuppets.regex_rule, "
                      "the return modes, the module logger, exceptions, a PATH shim for objdump); no hook is compiled into /repo. The drift-only binding of the pipeline model (Trace_Jasm) wraps six stage-boundary functions from outside, inside the worker's forked child process (harness/stagetrace.py); the repository is not changed for it either",
            "baseline_off_cmd": "cd /repo && /venv/bin/python -m pytest -ra -q -p no:cacheprovider --timeout=900 "
                                "--continue-on-collection-errors",
            "source_commits": [],
            "add_only": True,
        },
        "engines": [{"name": "tlc", "path": "/opt/veriftools/tla/tla2tools.jar",
                     "serves_properties": sorted(CHECKS), "kind_free_text":
                     "explicit-state model checker for the TLA+ specification in /verif/spec; also decides the traces recorded "
                     "from the real code (Trace_*.tla)"}],
        "checks": checks,
        "not_applicable": na,
        "notes": "See DESIGN.md. Fix commits in /repo are listed in known_findings.json (status fixed).",
    }
    with open(os.path.join(HERE, "MANIFEST.json"), "w") as f:
        json.dump(man, f, indent=1)
    print(f"MANIFEST.json: {len(checks)} checks, {len(na)} not claimed")


NOT_YET = {}

if __name__ == "__main__":
    main()
