#!/bin/sh
# Runs every check of MANIFEST.json at the given tier (default quick) and prints one line per property.
cd "$(dirname "$0")/.."
tier=${1:-quick}
rc=0
for p in $(./check list); do
  start=$(date +%s)
  ./check $p --tier $tier > /tmp/verif-run-$p.log 2>&1
  code=$?
  end=$(date +%s)
  echo "$p exit=$code wall=$((end-start))s $(grep -c '^KNOWN-FINDING' /tmp/verif-run-$p.log) known, $(grep -c '^VIOLATION' /tmp/verif-run-$p.log) violations"
  [ $code -ne 0 ] && rc=1
done
exit $rc
