#!/usr/bin/env python3
"""Copy confirmed seeded changes into /verif/seeded/<Cxx>-<variant>/.

usage: tools/keep_seeds.py RESULTS.jsonl   (the output of tools/try_seed.py)

A seed is kept only if it was confirmed here: the patch applies to /repo's HEAD, the repository's suite still gives
`3 failed, 129 passed` with it, and its demonstration exits 0 without and non-zero with the patch.  meta.json is
extended with what was run and which checks reported the change.
"""
import json
import os
import shutil
import subprocess
import sys

VERIF = os.path.dirname(os.path.dirname(os.path.abspath(__file__)))


def main():
    head = subprocess.run(["git", "-C", "/repo", "rev-parse", "--short", "HEAD"], capture_output=True, text=True).stdout.strip()
    kept = 0
    for line in open(sys.argv[1]):
        if not line.startswith("{"):
            continue
        r = json.loads(line)
        seed = r["seed"]
        ok = (r.get("suite", "").startswith("3 failed, 129 passed") and r.get("demo_unpatched") == 0
              and r.get("demo_patched") not in (0, None) and "error" not in r)
        meta = json.load(open(os.path.join(seed, "meta.json")))
        name = f"{meta['property']}-{meta.get('variant', os.path.basename(seed))}"
        if not ok:
            print(f"NOT KEPT {name}: {r}")
            continue
        dst = os.path.join(VERIF, "seeded", name)
        os.makedirs(dst, exist_ok=True)
        for f in ("patch.diff", "demo.py"):
            shutil.copy(os.path.join(seed, f), os.path.join(dst, f))
        caught = {c: v for c, v in r.get("checks", {}).items() if v["exit"] == 1}
        meta["confirmed"] = {
            "repo_head": head,
            "ran": [
                "git -C /repo worktree add --detach <scratch> HEAD; git -C <scratch> apply patch.diff",
                "cd <scratch> && PYTHONPATH=<scratch>/src /venv/bin/python -m pytest -q -p no:cacheprovider --timeout=900",
                "PYTHONPATH=<scratch>/src /venv/bin/python demo.py   (before and after applying the patch)",
                "JASM_REPO=<scratch> ./check <property> --tier quick",
            ],
            "suite_with_patch": r["suite"],
            "demo_exit_unpatched": r["demo_unpatched"],
            "demo_exit_patched": r["demo_patched"],
            "checks": {c: {"exit": v["exit"], "violations": v["violations"], "first_clause": v["first"]}
                       for c, v in r.get("checks", {}).items()},
            "caught_by": sorted(caught),
        }
        with open(os.path.join(dst, "meta.json"), "w") as f:
            json.dump(meta, f, indent=1)
        kept += 1
        print(f"kept {name}: caught by {sorted(caught) or 'NOTHING'}")
    print(f"{kept} seeds kept")


if __name__ == "__main__":
    main()
