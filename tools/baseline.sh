#!/bin/sh
# Runs the repository's pinned suite with the verification guard off and prints the summary line.
# Expected on the pinned tree and after every fix commit: 129 passed, 3 failed (the three
# always-failing tests of BASELINE.json, caused by an emptied listing file in this checkout).
cd "${1:-/repo}" && env -u JASM_VERIF /venv/bin/python -m pytest -q -p no:cacheprovider --timeout=900 2>&1 | grep -E "passed|failed" | tail -1
