#!/usr/bin/env python3
"""Try seeded breaking changes against the checks.

usage: tools/try_seed.py <seed-dir> [<seed-dir> ...] [--checks C01,C02 | --all] [--tier quick]

A seed dir holds patch.diff, demo.py and meta.json ({"property": "Cxx", ...}).  For each seed a scratch git
worktree of /repo is created under /tmp, the patch is applied there, and then
  1. the repository's suite is run on the patched tree (must stay `3 failed, 129 passed`),
  2. demo.py is run on the unpatched and on the patched tree (exit 0 / non-zero),
  3. the checks are run with JASM_REPO pointing at the patched worktree (the checks read the code from there).
The worktree is removed afterwards.  /repo itself is never modified.
"""
import json
import os
import shutil
import subprocess
import sys
import tempfile

VERIF = os.path.dirname(os.path.dirname(os.path.abspath(__file__)))


def sh(cmd, **kw):
    return subprocess.run(cmd, shell=isinstance(cmd, str), capture_output=True, text=True, **kw)


def main():
    args = sys.argv[1:]
    seeds, checks, tier = [], None, "quick"
    i = 0
    while i < len(args):
        if args[i] == "--checks":
            checks = args[i + 1].split(",")
            i += 2
        elif args[i] == "--all":
            checks = "all"
            i += 1
        elif args[i] == "--tier":
            tier = args[i + 1]
            i += 2
        else:
            seeds.append(args[i])
            i += 1
    all_checks = sh([os.path.join(VERIF, "check"), "list"]).stdout.split()
    results = []
    for seed in seeds:
        meta = json.load(open(os.path.join(seed, "meta.json")))
        prop = meta["property"]
        wt = tempfile.mkdtemp(prefix="wt-seed-", dir="/tmp")
        os.rmdir(wt)
        sh(["git", "-C", "/repo", "worktree", "add", "--detach", "-q", wt, "HEAD"])
        row = {"seed": seed, "property": prop}
        try:
            env = dict(os.environ, PYTHONPATH=os.path.join(wt, "src"), PYTHONDONTWRITEBYTECODE="1")
            # demos may name the worktree they were written in: point them at this scratch worktree
            demo = os.path.join(wt, ".seed_demo.py")
            with open(os.path.join(seed, "demo.py")) as f:
                text = f.read()
            import re
            text = re.sub(r"/tmp/seed/C\d\d(?=/src|\b)", wt, text)
            with open(demo, "w") as f:
                f.write(text)
            d0 = sh(["/venv/bin/python", demo], env=env, cwd=wt)
            row["demo_unpatched"] = d0.returncode
            ap = sh(["git", "-C", wt, "apply", os.path.abspath(os.path.join(seed, "patch.diff"))])
            if ap.returncode != 0:
                row["error"] = "patch does not apply: " + ap.stderr[:200]
                results.append(row)
                continue
            t = sh("/venv/bin/python -m pytest -q -p no:cacheprovider --timeout=900 2>&1 | tail -1", env=env, cwd=wt)
            row["suite"] = t.stdout.strip()
            d1 = sh(["/venv/bin/python", demo], env=env, cwd=wt)
            row["demo_patched"] = d1.returncode
            todo = all_checks if checks == "all" else (checks or [prop])
            row["checks"] = {}
            for c in todo:
                env2 = dict(os.environ, JASM_REPO=wt, VERIF_TIER=tier, VERIF_SEED=os.environ.get("VERIF_SEED", "1"),
                            VERIF_EVIDENCE_DIR=os.path.join(wt, ".evidence"), VERIF_REPLAY_DIR=os.path.join(wt, ".replays"))
                r = sh([os.path.join(VERIF, "check"), c, "--tier", tier], env=env2, cwd=VERIF)
                viol = [l for l in r.stdout.split("\n") if l.startswith("VIOLATION")]
                what = viol[0].split("(", 1)[-1].rstrip(")") if viol else ""
                row["checks"][c] = {"exit": r.returncode, "violations": len(viol), "first": what[:160]}
                if r.returncode == 2:
                    row["checks"][c]["stderr"] = r.stderr[-400:]
        finally:
            sh(["git", "-C", "/repo", "worktree", "remove", "--force", wt])
            shutil.rmtree(wt, ignore_errors=True)
        results.append(row)
        print(json.dumps(row), flush=True)
    caught = sum(1 for r in results if any(v["exit"] == 1 for v in r.get("checks", {}).values()))
    print(f"SUMMARY: {caught}/{len(results)} seeds caught")


if __name__ == "__main__":
    main()
