#!/usr/bin/env python3
"""Regression of the seeded changes: every kept seed is applied again (scratch worktree, tools/try_seed.py) and the
checks that were recorded as reporting it (seeded/<id>/meta.json, confirmed.checks) must still report it.

usage: tools/regress_seeds.py OUT.jsonl [Cxx ...]      (property prefixes select a subset; default: all)
"""
import glob
import json
import os
import subprocess
import sys

HERE = os.path.dirname(os.path.dirname(os.path.abspath(__file__)))
out = sys.argv[1]
want = sys.argv[2:]
seeds = sorted(glob.glob(os.path.join(HERE, "seeded", "*")))
if want:
    order = {p: n for n, p in enumerate(want)}
    seeds = sorted([s for s in seeds if os.path.basename(s)[:3] in order], key=lambda s: (order[os.path.basename(s)[:3]], s))
lost = 0
with open(out, "a") as f:
    for s in seeds:
        m = json.load(open(os.path.join(s, "meta.json")))
        checks = [c for c, v in m["confirmed"]["checks"].items() if v["exit"] == 1]
        p = subprocess.run([os.path.join(HERE, "tools", "try_seed.py"), s, "--checks", ",".join(checks)], capture_output=True, text=True)
        row = next((json.loads(l) for l in p.stdout.split("\n") if l.startswith("{")), {"seed": s, "error": p.stdout[-300:] + p.stderr[-300:]})
        still = [c for c, v in row.get("checks", {}).items() if v["exit"] == 1]
        row["recorded"], row["still"] = checks, still
        if not still:
            lost += 1
        f.write(json.dumps(row) + "\n")
        f.flush()
        print(os.path.basename(s), "recorded", checks, "still", still, flush=True)
print("seeds no longer reported:", lost)
