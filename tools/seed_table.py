#!/usr/bin/env python3
"""Markdown table of the seeded changes (seeded/*/meta.json) and the checks that report them."""
import glob
import json
import os

HERE = os.path.dirname(os.path.dirname(os.path.abspath(__file__)))
print("| seed | what the change does (abridged) | needs | reported by (clause) |")
print("|---|---|---|---|")
for d in sorted(glob.glob(os.path.join(HERE, "seeded", "*"))):
    m = json.load(open(os.path.join(d, "meta.json")))
    c = m["confirmed"]
    by = "; ".join(f"{k} ({v['first_clause'][:48]})" for k, v in c["checks"].items() if v["exit"] == 1) or "--"
    s = m["summary"].replace("|", "/").replace("\n", " ")
    n = m["needs"].replace("|", "/").replace("\n", " ")
    print(f"| {os.path.basename(d)} | {s[:170]}{'...' if len(s) > 170 else ''} | {n[:130]}{'...' if len(n) > 130 else ''} | {by} |")
