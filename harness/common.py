"""Shared plumbing: paths, scratch space, evidence files, known findings, exit codes."""
import atexit
import json
import os
import shutil
import sys
import tempfile
import time

VERIF = os.path.dirname(os.path.dirname(os.path.abspath(__file__)))
REPO = os.environ.get("JASM_REPO", "/repo")
SPEC = os.path.join(VERIF, "spec")
EVIDENCE = os.environ.get("VERIF_EVIDENCE_DIR") or os.path.join(VERIF, "evidence")   # overridden only by tools/try_seed.py
REPLAYS = os.environ.get("VERIF_REPLAY_DIR") or os.path.join(VERIF, "replays")
PY = "/venv/bin/python"
NPROC = min(16, os.cpu_count() or 4)

EXIT_OK, EXIT_VIOLATION, EXIT_MACHINERY = 0, 1, 2


class MachineryError(Exception):
    """The verification machinery itself failed (never reported as a VIOLATION)."""


_scratch = None


def scratch():
    """Per-run scratch directory, removed at exit."""
    global _scratch
    if _scratch is None:
        base = os.environ.get("TMPDIR", "/tmp")
        if os.path.isdir("/dev/shm") and not os.environ.get("VERIF_NO_SHM"):
            base = "/dev/shm"
        _scratch = tempfile.mkdtemp(prefix="jasmverif-", dir=base)
        if not os.environ.get("VERIF_KEEP"):
            atexit.register(shutil.rmtree, _scratch, True)
    return _scratch


def seed():
    try:
        return int(os.environ.get("VERIF_SEED", "0"))
    except ValueError:
        return 0


def tier(default="quick"):
    t = os.environ.get("VERIF_TIER", default)
    return t if t in ("quick", "thorough") else default


def load_known_findings():
    path = os.path.join(VERIF, "known_findings.json")
    if not os.path.exists(path):
        return []
    with open(path) as f:
        return json.load(f)["findings"]


class Report:
    """Collects what one check run covered and how it ended."""

    def __init__(self, prop, tier_, level="model_checking"):
        self.prop = prop
        self.tier = tier_
        self.level = level
        self.t0 = time.time()
        self.cov = {
            "evaluations": 0, "distinct_nontrivial": 0, "rule": "",
            "samples": [], "states": 0, "transitions": 0,
            "traces_validated_against_impl": 0, "tlc_runs": [],
        }
        self.assumptions = []
        self.violations = []       # (clause, replay-path)
        self.known = []            # KNOWN-FINDING lines
        self.notes = []

    def add_tlc(self, stats, name):
        self.cov["states"] += stats.get("distinct", 0)
        self.cov["transitions"] += max(0, stats.get("generated", 0) - stats.get("init", 0))
        self.cov["tlc_runs"].append({"name": name, **{k: stats[k] for k in stats if k != "stdout"}})

    def sample(self, s, limit=6):
        if len(self.cov["samples"]) < limit:
            self.cov["samples"].append(s)

    def violation(self, what, replay_obj):
        os.makedirs(REPLAYS, exist_ok=True)
        n = len(self.violations) + 1
        path = os.path.join(REPLAYS, f"{self.prop}-{n}.json")
        with open(path, "w") as f:
            json.dump({"property": self.prop, "what": what, "tier": self.tier, "seed": seed(), "case": replay_obj}, f, indent=1)
        self.violations.append((what, path))
        return path

    def known_finding(self, fid, what):
        if any(k.startswith(f"KNOWN-FINDING: property={self.prop} {fid} ") for k in self.known):
            return
        self.known.append(f"KNOWN-FINDING: property={self.prop} {fid} {what}")

    def finish(self):
        self.cov["known_findings_seen"] = self.known
        if self.notes:
            self.cov["notes"] = self.notes
        ev = {
            "property_id": self.prop, "tier": self.tier, "seed": seed(),
            "level": self.level, "coverage": self.cov,
            "assumptions": self.assumptions,
            "wall_s": round(time.time() - self.t0, 2),
            "violations": len(self.violations),
        }
        os.makedirs(EVIDENCE, exist_ok=True)
        with open(os.path.join(EVIDENCE, f"{self.prop}.json"), "w") as f:
            json.dump(ev, f, indent=1)
        for line in self.known:
            print(line)
        shown = 0
        for what, path in self.violations:
            if shown < 20:
                print(f"VIOLATION property={self.prop} replay={path}  ({what})")
            shown += 1
        if shown > 20:
            print(f"... {shown - 20} more violations, see {REPLAYS}")
        print(f"[{self.prop}] tier={self.tier} evaluations={self.cov['evaluations']} "
              f"traces={self.cov['traces_validated_against_impl']} states={self.cov['states']} "
              f"violations={len(self.violations)} known={len(self.known)} wall={ev['wall_s']}s")
        return EXIT_VIOLATION if self.violations else EXIT_OK


def die_machinery(msg):
    print(f"MACHINERY-FAILURE: {msg}", file=sys.stderr)
    sys.exit(EXIT_MACHINERY)


def case_key(case):
    """What identifies the case of a replay file among the cases of a run of the same check."""
    k = case.get("kind")
    if k == "history":
        return json.dumps(case.get("history"))
    if k == "macro":
        r = case.get("rule") or {}
        return r.get("yaml", "") + "".join(r.get("macros") or [])
    if k == "fault":
        return json.dumps([case.get("fault"), case.get("mode"), case.get("label")])
    if k == "cli":
        return json.dumps(case.get("invocation"), sort_keys=True)
    if k == "binary":
        return json.dumps([case.get("sections"), case.get("rule"), os.path.basename(str(case.get("object")))])
    if k == "parse":
        return json.dumps([case.get("mode"), case.get("lines"), case.get("reps")])
    if k == "match":
        return json.dumps([case.get("rule_yaml"), case.get("listing_text"), case.get("mfm"), case.get("ofm")])
    return json.dumps(case, sort_keys=True)[:2000]


def replay_by_rerun(prop, path):
    """Replay for the checks whose cases live in an exhaustively enumerated universe (histories, documents, fault
    realisations, invocations, objects built from the seed): the check is run again, on the current tree, at the
    tier and seed of the replay file, with evidence and replays redirected to a scratch directory; the replay
    reproduces (exit 1) iff that run reports a violation of the same clause for the same case."""
    import subprocess
    import sys
    with open(path) as f:
        rep = json.load(f)
    want_key, want_clause = case_key(rep["case"]), rep["what"].split(" ")[0].split(":")[0]
    tmp = os.path.join(scratch(), "replay-run")
    env = dict(os.environ, VERIF_EVIDENCE_DIR=tmp, VERIF_REPLAY_DIR=os.path.join(tmp, "r"),
               VERIF_SEED=str(rep.get("seed", seed())))
    p = subprocess.run([sys.executable, os.path.join(VERIF, "check"), prop, "--tier", rep.get("tier", "quick")],
                       env=env, capture_output=True, text=True)
    if p.returncode not in (0, 1):
        print(p.stdout[-2000:] + p.stderr[-2000:])
        raise MachineryError(f"the re-run of {prop} failed (exit {p.returncode})")
    hit = None
    rdir = os.path.join(tmp, "r")
    for fn in sorted(os.listdir(rdir)) if os.path.isdir(rdir) else []:
        with open(os.path.join(rdir, fn)) as f:
            r = json.load(f)
        if case_key(r["case"]) == want_key and r["what"].split(" ")[0].split(":")[0] == want_clause:
            hit = r
            break
    print(f"replay of {os.path.basename(path)} ({rep['what'][:100]}): "
          + ("REPRODUCED on the current tree" if hit else "not reproduced on the current tree"))
    if hit:
        print(json.dumps(hit, indent=1)[:3000])
    return 1 if hit else 0
