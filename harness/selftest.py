"""Binding demonstrations: recorded observations of the real code are corrupted one field at a time and TLC must
reject each corrupted trace with the clause that names the corrupted aspect (and accept the uncorrupted one).

  ./check selftest        exit 0 = every corruption was rejected as expected; exit 2 otherwise (machinery)
"""
import copy
import json
import os

from . import matchpipe, parsepipe, render, tlc
from .common import Report, MachineryError, scratch
from .pat import seq, ins, lit, I


def match_traces(report):
    P = seq(ins("push"), ins("call", lit("4010")))
    L = [I("401000", "push", "%rbx"), I("401001", "call", "401008"), I("401006", "pop", "%rbx"),
         I("401007", "push", "%rax"), I("401008", "call", "401000")]
    rule = {"id": 0, "yaml": render.dump_yaml(render.rule_doc(P))}
    obs = matchpipe.drive({"rules": [rule], "listings": [{"id": 0, "text": render.listing_text(L)}], "pairs": "all"}, tag="self")
    good = matchpipe.case_of(obs[0], 1, 1, False, False)
    variants = [("uncorrupted", good, "ok:F")]

    def corrupt(name, fn, expect):
        c = copy.deepcopy(good)
        fn(c)
        variants.append((name, c, expect))

    corrupt("one record removed from the stream", lambda c: c.update(stream=c["stream"].split("|", 1)[1]), "rej:C10_StreamIsEncode")
    corrupt("a reported match shifted by one instruction", lambda c: c["all"][0].update(s=2, e=4), "rej:Genuine")
    corrupt("the second match dropped", lambda c: (c["all"].pop(), c["all_addr"].pop()), "rej:C11_Scan")
    corrupt("a reported address altered", lambda c: c["all_addr"].__setitem__(0, "401001"), "rej:C07_Addr")
    corrupt("one boolean flipped", lambda c: c["bools"].__setitem__(2, False), "rej:C12_Bool")
    corrupt("first-match result is not the first element", lambda c: c["first"][0].update(s=4, e=6), "rej:C11_First")
    corrupt("a match text that is not instruction aligned", lambda c: c["all"][0].update(s=0, e=0, raw="::push,%rbx,|"), "rej:C07_Aligned")
    verdicts = matchpipe.validate([P], [L], [v[1] for v in variants], report, "selftest-match")
    return [(n, e, v) for (n, _, e), v in zip(variants, verdicts)]


def parse_traces(report):
    lines = ["  401000:\t55                   \tpush   %rbp", "  401001:\t48 8b 44 98 08       \tmov    0x8(%rax,%rbx,4),%rax",
             "  401006:\tc3                   \tret"]
    obs = parsepipe.parse_texts(["\n".join(lines) + "\n"], "selfp")
    good = parsepipe.case("text", lines, [], obs[0])
    variants = [("uncorrupted", good, "ok")]

    def corrupt(name, fn, expect):
        c = copy.deepcopy(good)
        fn(c)
        variants.append((name, c, expect))

    corrupt("an instruction missing from the stream", lambda c: c.update(stream=c["stream"].split("|", 1)[1]), "rej:C08_Count")
    corrupt("a mnemonic altered", lambda c: c.update(stream=c["stream"].replace("::mov,", "::mv,")), "rej:C08_AddrMnemonic")
    corrupt("an operand not in normal form", lambda c: c.update(stream=c["stream"].replace("[%rax+%rbx*4+0x8]", "0x8(%rax+%rbx*4)")), "rej:C09_NormalForm")
    corrupt("a comma inside an operand field", lambda c: c.update(stream=c["stream"].replace("[%rax+%rbx*4+0x8]", "0x8(%rax,%rbx,4)")), "rej:C10_CommaInsideField")
    corrupt("the parser raised", lambda c: c.update(outcome="error", stream=""), "rej:C08_ParserFailed")
    verdicts = parsepipe.validate([v[1] for v in variants], report, "selftest-parse")
    return [(n, e, v) for (n, _, e), v in zip(variants, verdicts)]


def session_traces(report):
    ev = {"rule": "mfm", "input": "text", "outcome": "ok",
          "g": {"mfm": "True", "ofm": "False", "style": "att", "range": [], "sections": []}, "res": "R", "fresh": "R", "res1": "A", "res2": "A"}
    ev2 = {"rule": "plain", "input": "text", "outcome": "ok",
           "g": {"mfm": "False", "ofm": "False", "style": "att", "range": [], "sections": []}, "res": "S", "fresh": "S", "res1": "B", "res2": "B"}
    traces = [("uncorrupted", [ev, ev2], "ok")]
    t = copy.deepcopy([ev, ev2])
    t[1]["g"]["mfm"] = "True"
    traces.append(("stale full-match flag after the second construction", t, "rej:C14_ConfigIsNotTheRules"))
    t = copy.deepcopy([ev, ev2])
    t[1]["res"] = "other"
    traces.append(("result differs from the fresh process", t, "rej:C14_DiffersFromFreshProcess"))
    t = copy.deepcopy([ev, ev2])
    t[1]["res2"] = "BB"
    traces.append(("a second call on the same object gives another result", t, "rej:C14_SecondCallOnTheSameObjectDiffers"))
    t = copy.deepcopy([ev, ev2])
    t[0]["g"]["range"] = ["401000", "401010"]
    traces.append(("a range nobody configured", t, "rej:C14_ConfigIsNotTheRules"))
    path = os.path.join(scratch(), "selftest.session.json")
    with open(path, "w") as f:
        json.dump({"traces": [t[1] for t in traces]}, f)
    tv = tlc.run("Trace_Session", env={"JASM_CASES": path}, dump=True)
    report.add_tlc(tv, "selftest Trace_Session")
    got = {}
    for s in tlc.read_dump(tv["dump"]):
        if s["verdict"] != "run":
            got[s["tid"]] = s["verdict"]
    tlc.cleanup(tv)
    return [(n, e, got.get(k + 1)) for k, (n, _, e) in enumerate(traces)]


def stage_traces(report):
    """One real operation's stage trace (a rule with macros that is found), corrupted one event at a time."""
    from .props import macroprops
    rules, listings = macroprops.stage_universe()
    with_macros = [n for n, r in enumerate(rules) if "macros:" in r["yaml"]]
    obs = matchpipe.drive({"rules": rules, "listings": listings, "stages": True,
                           "pairs": [[ri, li] for ri in with_macros[:12] for li in range(0, len(listings), 6)]}, tag="selfstage")
    good = next(o for o in obs if o["events"][-1] == {"ev": "Return", "result": True}
                and sum(e["ev"] == "MacroPass" for e in o["events"]) >= 2)
    base = {"u": 1, "d": good["r"] + 1, "l": good["l"] + 1, "events": good["events"]}
    variants = [("uncorrupted stage trace", base, "ok:found")]

    def corrupt(name, fn, expect):
        c = copy.deepcopy(base)
        fn(c["events"])
        variants.append((name, c, expect))

    def at(evs, kind, k=0):
        return [n for n, e in enumerate(evs) if e["ev"] == kind][k]

    corrupt("the regex text altered", lambda ev: ev[at(ev, "EmitRegex")].update(regex=ev[at(ev, "EmitRegex")]["regex"] + "x"), "rej:EmitRegex:RegexText")
    corrupt("one macro pass missing", lambda ev: ev.pop(at(ev, "MacroPass")), "rej:MacroPass:OrderOfDefinitions")
    corrupt("the tree after a pass altered", lambda ev: ev[at(ev, "MacroPass", 1)]["doc"]["items"][0].update(s="$or"), "rej:MacroPass:TreeAfterPass")
    corrupt("a stale full-match flag", lambda ev: ev[at(ev, "LoadRule")].update(mfm="True"), "rej:LoadRule:Config")
    corrupt("one record missing from the stream", lambda ev: ev[at(ev, "ParseListing")].update(stream=ev[at(ev, "ParseListing")]["stream"].split("|", 1)[1]), "rej:ParseListing:Stream")
    corrupt("the scan result flipped", lambda ev: ev[at(ev, "Scan")].update(found=False), "rej:Scan:Found")
    corrupt("the returned verdict flipped", lambda ev: ev[-1].update(result=False), "rej:Return:Result")
    corrupt("the operation raises although every stage succeeded", lambda ev: ev.__setitem__(len(ev) - 1, {"ev": "Raise", "exc": "X"}), "rej:Raise:ModelDoesNotFail")
    final = macroprops.validate_stage_traces([v[1] for v in variants], report, "selftest Trace_Jasm")
    return [(n, e, final.get(k + 1, (None,))[0]) for k, (n, _, e) in enumerate(variants)]


def main():
    report = Report("selftest", "quick")
    rows = match_traces(report) + parse_traces(report) + session_traces(report) + stage_traces(report)
    bad = 0
    for name, expect, got in rows:
        ok = got is not None and got.split("|")[0] == expect
        print(f"{'ok ' if ok else 'BAD'}  {name}: expected {expect}, TLC says {got}")
        bad += not ok
    print(f"selftest: {len(rows) - bad}/{len(rows)} corruptions judged as expected")
    if bad:
        raise MachineryError("a corrupted trace was not rejected with the expected clause")
    return 0
