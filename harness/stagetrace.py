"""Stage tracer for one compile-and-match operation (code -> spec, module Trace_Jasm).

The functions at which the stages of spec/Jasm.tla end are wrapped FROM OUTSIDE, inside the worker's forked child
(nothing in the repository is changed); one event is recorded per stage, at the wrapped call's return or raise, i.e.
after the state change and before the next stage can see it (the code is sequential):

  LoadRule      Yaml2Regex._load_config returns          g (the two full-match flags as stored)
  MacroPass     MacroExpander._resolve_macro returns     the document tree after the sweep, rule_macros
  MacroCheck    MacroExpander.resolve_all_macros ends    ok / error
  BuildTree     Yaml2Regex._generate_rule_tree ends      ok / error
  EmitRegex     Yaml2Regex.produce_regex ends            the regex text / error
  ParseListing  CompleteConsumer.finalize is entered     the stream
  Scan          CompleteConsumer.finalize returns        found
  Return/Raise  perform_matching returns / anything raised

An exception is logged once, by the innermost wrapped call it passes through.  If one of the wrapped names does not
exist (a refactoring), TracerUnavailable is raised and the harness reports it as drift of the model, never as a
violation.
"""


class TracerUnavailable(Exception):
    pass


EVENTS = []
_installed = False


def doc_of(x):
    """Python YAML object -> Doc tree of spec/JasmMacro.tla."""
    if isinstance(x, dict):
        return {"t": "map", "s": "", "i": 0,
                "items": [{"t": "pair", "s": str(k), "i": 0, "items": [doc_of(v)]} for k, v in x.items()]}
    if isinstance(x, list):
        return {"t": "list", "s": "", "i": 0, "items": [doc_of(v) for v in x]}
    if isinstance(x, bool):
        return {"t": "str", "s": str(x), "i": 0, "items": []}
    if isinstance(x, int):
        return {"t": "int", "s": "", "i": x, "items": []}
    if x is None:
        return {"t": "null", "s": "", "i": 0, "items": []}
    return {"t": "str", "s": str(x), "i": 0, "items": []}


def _ev(_kind, **fields):
    EVENTS.append(dict(ev=_kind, **fields))


def _wrap(cls, name, before=None, after=None):
    if not hasattr(cls, name):
        raise TracerUnavailable(f"{cls.__name__}.{name} does not exist")
    orig = getattr(cls, name)

    def wrapper(*args, **kwargs):
        if before:
            before(args, kwargs)
        try:
            res = orig(*args, **kwargs)
        except BaseException as exc:  # pylint: disable=broad-except
            if after and not getattr(exc, "_stage_logged", False):
                after(args, kwargs, None, exc)
                try:
                    exc._stage_logged = True
                except AttributeError:
                    pass
            raise
        if after:
            after(args, kwargs, res, None)
        return res
    setattr(cls, name, wrapper)


def install():
    global _installed
    if _installed:
        return
    try:
        from jasm.jasm_regex.yaml2regex import Yaml2Regex
        from jasm.jasm_regex.macro_expander.macro_expander import MacroExpander
        from jasm.consumer import CompleteConsumer
        from jasm.global_definitions import JASMConfig, PartialMatchingConfig
    except ImportError as exc:
        raise TracerUnavailable(str(exc)) from exc

    def load_rule(args, kwargs, res, exc):
        if exc is not None:
            _ev("LoadRule", outcome="error")
            return
        cfg = JASMConfig()
        _ev("LoadRule", outcome="ok", mfm=str(cfg.get_info(PartialMatchingConfig.MnemonicsFullMatch)),
            ofm=str(cfg.get_info(PartialMatchingConfig.OperandsFullMatch)))

    def macro_pass(args, kwargs, res, exc):
        macro = kwargs.get("macro", args[1] if len(args) > 1 else None)
        rm = kwargs.get("rule_macros", args[3] if len(args) > 3 else None)
        name = macro.get("name") if isinstance(macro, dict) else None
        if exc is not None:
            _ev("MacroPass", name=str(name), err=True, doc=doc_of(None), rm=[])
        else:
            _ev("MacroPass", name=str(name), err=False, doc=doc_of(res), rm=sorted(str(x) for x in (rm or ())))

    def macro_check(args, kwargs, res, exc):
        _ev("MacroCheck", outcome="ok" if exc is None else "error")

    def build_tree(args, kwargs, res, exc):
        _ev("BuildTree", outcome="ok" if exc is None else "error")

    def emit_regex(args, kwargs, res, exc):
        _ev("EmitRegex", outcome="ok" if exc is None else "error", regex=res if exc is None else "")

    def parse_listing(args, kwargs):
        self = args[0]
        _ev("ParseListing", stream="".join(self._all_instructions_list))

    def scan(args, kwargs, res, exc):
        self = args[0]
        _ev("Scan", outcome="ok" if exc is None else "error", found=bool(self._matched_observer.matched))

    _wrap(Yaml2Regex, "_load_config", after=load_rule)
    _wrap(MacroExpander, "_resolve_macro", after=macro_pass)
    _wrap(MacroExpander, "resolve_all_macros", after=macro_check)
    _wrap(Yaml2Regex, "_generate_rule_tree", after=build_tree)
    _wrap(Yaml2Regex, "produce_regex", after=emit_regex)
    _wrap(CompleteConsumer, "finalize", before=parse_listing, after=scan)
    _installed = True


def run(J, cfg):
    """One complete operation (first-match, boolean result) with the stage events it went through."""
    install()
    del EVENTS[:]
    try:
        res = J["MasterOfPuppets"](cfg).perform_matching()
        _ev("Return", result=bool(res))
    except BaseException as exc:  # pylint: disable=broad-except
        if isinstance(exc, (KeyboardInterrupt, SystemExit)):
            raise
        _ev("Raise", exc=f"{type(exc).__name__}: {exc}"[:200])
    return list(EVENTS)
