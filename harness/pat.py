"""Python-side constructors of the abstract pattern nodes of spec/JasmPattern.tla (same field set)."""


def node(k, name="", kids=(), lo=1, hi=1, fam="", w=""):
    return {"k": k, "name": name, "kids": list(kids), "lo": lo, "hi": hi, "fam": fam, "w": w}


def ins(m, *ops, lo=1, hi=1):
    return node("ins", m, ops, lo, hi)


def lit(n):
    return node("lit", n)


def seq(*items):
    return node("and", "", items)


def group(k, *kids, lo=1, hi=1):
    return node(k, "", kids, lo, hi)


def icap(n):
    return node("icap", n)


def ocap(n):
    return node("ocap", n)


def rcap(name, fam, w=""):
    return node("rcap", name, fam=fam, w=w)


def deref(**fields):
    order = ["main_reg", "register_multiplier", "constant_multiplier", "constant_offset"]
    return node("deref", "", [node("dfield", f, [fields[f]]) for f in order if f in fields])


def flit(n):
    return node("flit", n)


def I(addr, mn, *ops):
    return {"addr": addr, "mn": mn, "ops": list(ops)}
