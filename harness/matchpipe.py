"""Spec -> code -> spec pipeline for (pattern, listing, flags) universes.

1. TLC exports the universe defined in spec/U_<x>.tla               (export_universe)
2. patterns are unparsed to YAML, listings printed as objdump text   (render)
3. every case is executed on the real code, all nine modes           (drive)
4. TLC validates every observation against the specification         (validate)
"""
import json
import os
import random
import subprocess

from . import render, tlc
from .common import PY, VERIF, NPROC, MachineryError, scratch, seed

FLAGS = [(False, False), (False, True), (True, False), (True, True)]


def export_universe(module, cfg, report=None):
    out = os.path.join(scratch(), f"{module}-{cfg}.json")
    st = tlc.run(module, cfg=cfg, env={"JASM_OUT": out}, workers=1)
    if report is not None:
        report.add_tlc(st, f"export {module} {cfg}")
    tlc.cleanup(st)
    with open(out) as f:
        u = json.load(f)
    os.unlink(out)
    return u


def unparse_by_tlc(patterns, report=None):
    """Rule document trees of the patterns, computed by TLC (JasmSyntax!Unparse), as native Python objects.

    Returns a list of {"body": doc, "sib": doc, "upper": doc} (the `pattern` lists)."""
    inp = os.path.join(scratch(), "unparse.in.json")
    out = os.path.join(scratch(), "unparse.out.json")
    with open(inp, "w") as f:
        json.dump({"patterns": patterns}, f)
    st = tlc.run("Export_Docs", cfg="Export_Docs.cfg", env={"JASM_IN": inp, "JASM_OUT": out}, workers=1, heap="8g")
    if report is not None:
        report.add_tlc(st, "Export_Docs (JasmSyntax!Unparse)")
    tlc.cleanup(st)
    with open(out) as f:
        docs = json.load(f)["docs"]
    os.unlink(inp)
    os.unlink(out)
    res = []
    for d in docs:
        if not d["back"]:
            raise MachineryError("JasmSyntax: Parse(Unparse(p)) # p for a universe pattern")
        res.append({k: doc_native(d[k]) for k in ("body", "sib", "upper", "ints")})
        res[-1]["rx"] = d["rx"]
    return res


def doc_native(d):
    t = d["t"]
    if t == "str":
        return d["s"]
    if t == "int":
        return d["i"]
    if t == "null":
        return None
    if t == "list":
        return [doc_native(x) for x in d["items"]]
    if t == "map":
        return {p["s"]: doc_native(p["items"][0]) for p in d["items"]}
    raise MachineryError(f"unknown Doc node {t}")


def drive(job, tag="job"):
    """Run harness/worker.py on a job; returns the list of observations."""
    jp = os.path.join(scratch(), f"{tag}.job.json")
    op = os.path.join(scratch(), f"{tag}.obs.json")
    with open(jp, "w") as f:
        json.dump(job, f)
    env = dict(os.environ)
    env["PYTHONDONTWRITEBYTECODE"] = "1"
    env["PYTHONPATH"] = ""
    proc = subprocess.run([PY, os.path.join(VERIF, "harness", "worker.py"), jp, op],
                          capture_output=True, text=True, env=env, cwd=scratch())
    if proc.returncode != 0:
        raise MachineryError(f"driver failed:\n{proc.stderr[-3000:]}")
    with open(op) as f:
        obs = json.load(f)
    os.unlink(jp)
    os.unlink(op)
    return obs


def project(text, stream, from_rec=1):
    """Exact, total projection of a reported match text to a span of the observed stream.

    A text that is string-equal to the concatenation of records s..e-1 becomes
    {s, e, raw: ""}; anything else is shipped verbatim {s: 0, e: 0, raw: text}."""
    if not hasattr(project, "_cache") or project._cache[0] is not stream:
        offs = [0]
        for n, ch in enumerate(stream):
            if ch == "|":
                offs.append(n + 1)
        project._cache = (stream, offs, {o: k for k, o in enumerate(offs)})
    _, offs, index = project._cache
    if text:
        nrec = len(offs) - 1 if offs[-1] == len(stream) else len(offs)
        for k in range(max(0, from_rec - 1), nrec):
            o = offs[k]
            if stream.startswith(text, o) and (o + len(text)) in index:
                return {"s": k + 1, "e": index[o + len(text)] + 1, "raw": ""}
    return {"s": 0, "e": 0, "raw": text}


def project_seq(texts, stream):
    """Projection of an ordered result list: each text is located at the first instruction-aligned occurrence at or
    after the end of the previous one (results are reported in scan order), so that identical records occurring
    twice in a listing are told apart.  Still exact string equality only."""
    out, start_rec = [], 1
    for t in texts:
        p = project(t, stream, start_rec)
        if p["s"] == 0:
            p = project(t, stream, 1)
        out.append(p)
        if p["s"]:
            start_rec = max(start_rec, p["e"]) if p["e"] > p["s"] else start_rec
    return out


def case_of(o, p, l, mfm, ofm, rng=()):
    """Observation -> case record for Trace_Match (uniform field set)."""
    c = {"p": p, "l": l, "mfm": mfm, "ofm": ofm, "outcome": o["outcome"], "stream": "",
         "all": [], "first": [], "all_addr": [], "first_addr": [], "bools": [], "range": list(rng), "rand": False, "nostream": False, "obs": False}
    if o["outcome"] != "ok":
        return c
    res = o["res"]
    c["stream"] = o["stream"]
    c["all"] = project_seq(res["LAT"], o["stream"])
    c["first"] = project_seq(res["LFT"], o["stream"])
    c["all_addr"] = res["LAA"]
    c["first_addr"] = res["LFA"]
    c["bools"] = [res["BAT"], res["BFT"], res["BAA"], res["BFA"]]
    return c


def validate(patterns, listings, cases, report, name, module="Trace_Match", extra_data=None, batch=250000):
    """TLC decides every case; returns list of verdict strings aligned with `cases`.

    Large case sets are validated in batches (one TLC run each) holding only the listings they refer to."""
    if not cases:
        return []
    if len(cases) > batch:
        out = []
        for b in range(0, len(cases), batch):
            part = cases[b:b + batch]
            used = sorted({c["l"] for c in part})
            remap = {l: n + 1 for n, l in enumerate(used)}
            sub = [dict(c, l=remap[c["l"]]) for c in part]
            out += validate(patterns, [listings[l - 1] for l in used], sub, report, f"{name}.{b // batch}", module,
                            extra_data, batch=len(sub) + 1)
        return out
    path = os.path.join(scratch(), f"{name}.cases.json")
    data = {"patterns": patterns, "listings": listings, "cases": cases}
    if extra_data:
        data.update(extra_data)
    with open(path, "w") as f:
        json.dump(data, f)
    st = tlc.run(module, env={"JASM_CASES": path}, dump=True, heap="16g")
    report.add_tlc(st, f"validate {name}")
    verdicts = [None] * len(cases)
    for s in tlc.read_dump(st["dump"]):
        if s["verdict"] != "?":
            verdicts[s["idx"] - 1] = s["verdict"]
    tlc.cleanup(st)
    os.unlink(path)
    if any(v is None for v in verdicts):
        raise MachineryError(f"TLC gave no verdict for {sum(v is None for v in verdicts)} cases of {name}")
    return verdicts


def run_universe(report, universe, name, flags=FLAGS, spellings=({},), max_cases=None,
                 config_extra=None, clause_map=None, rule_filter=None):
    """Cross product patterns x listings x flags x spellings on the real code, validated by TLC.

    Returns (cases, verdicts, rules) so that callers can attribute rejections."""
    pats, lsts = universe["patterns"], universe["listings"]
    rules = []          # (pattern index, mfm, ofm, spelling)
    for pi, P in enumerate(pats):
        for (mfm, ofm) in flags:
            for sp in spellings:
                rules.append((pi, mfm, ofm, sp))
    job_rules = []
    for (pi, mfm, ofm, sp) in rules:
        doc = render.rule_doc(pats[pi], mfm, ofm, opt=sp, config_extra=config_extra)
        job_rules.append({"id": len(job_rules), "yaml": render.dump_yaml(doc)})
    job_listings = [{"id": n, "text": render.listing_text(L)} for n, L in enumerate(lsts)]
    total = len(rules) * len(lsts)
    pairs = "all"
    if max_cases and total > max_cases:
        rnd = random.Random(seed())
        per_rule = max(1, max_cases // len(rules))
        pairs = []
        for ri in range(len(rules)):
            for li in rnd.sample(range(len(lsts)), min(per_rule, len(lsts))):
                pairs.append([ri, li])
        report.notes.append(f"{name}: sampled {len(pairs)} of {total} cases (seed {seed()})")
    obs = drive({"rules": job_rules, "listings": job_listings, "pairs": pairs}, tag=name)
    cases = []
    for o in obs:
        pi, mfm, ofm, sp = rules[o["r"]]
        cases.append(case_of(o, pi + 1, o["l"] + 1, mfm, ofm))
    verdicts = validate(pats, lsts, cases, report, name)
    report.cov["evaluations"] += len(cases)
    report.cov["traces_validated_against_impl"] += len(cases)
    return cases, verdicts, [rules[o["r"]] for o in obs], job_rules, job_listings, obs
