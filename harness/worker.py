"""Driver of the real code.  Runs under /venv/bin/python, imports jasm from /repo/src.

usage: worker.py JOB.json OUT.json

JOB = {"rules":    [{"id":…, "yaml": text, "macros": [text,…]?}],
       "listings": [{"id":…, "text": text} | {"id":…, "path": file, "binary": bool}],
       "pairs":    "all" | [[rule-index, listing-index], …],
       "fresh":    bool   (one MasterOfPuppets per mode instead of one per pair),
       "isolate":  bool   (fork one child per rule; default true),
       "procs":    int}

Only the public API is used: MasterOfPuppets(MatchConfig(...)).perform_matching(),
MasterOfPuppets.regex_rule, JASMConfig().get_info -- except for jobs with "stages": true, where stagetrace.py
wraps the stage boundaries from outside to record the pipeline's steps (drift reports only).
"""
import json
import logging
import multiprocessing
import os
import sys
import tempfile
import traceback

REPO = os.environ.get("JASM_REPO", "/repo")
sys.path.insert(0, os.path.join(REPO, "src"))
sys.dont_write_bytecode = True

MODES = [(ret, srch, addr) for ret in ("L", "B") for srch in ("A", "F") for addr in ("T", "A")]


def _imports():
    # imported lazily so that a syntax error in the repository is reported per job
    from jasm.global_definitions import (InputFileType, MatchConfig, MatchingReturnMode,
                                         MatchingSearchMode, JASMConfig, PartialMatchingConfig)
    from jasm.match import MasterOfPuppets
    from jasm.logging_config import logger
    logger.addHandler(logging.NullHandler())
    logger.propagate = False
    return locals()


def snapshot_config(J):
    cfg = J["JASMConfig"]()
    rng = cfg.get_info("valid_addr_range")
    style = cfg.get_info("assembly_style")
    return {
        # raw values as text ("True", "False", "None"): the specification decides what they mean
        "mfm": str(cfg.get_info(J["PartialMatchingConfig"].MnemonicsFullMatch)),
        "ofm": str(cfg.get_info(J["PartialMatchingConfig"].OperandsFullMatch)),
        "style": style.name if style is not None else "None",
        "range": [] if rng is None else [format(rng.min.hex, "x"), format(rng.max.hex, "x")],
        "sections": list(cfg.get_info("sections") or []),
    }


def _mk_config(J, rule_path, macro_paths, inp, binary, mode):
    ret, srch, addr = mode
    return J["MatchConfig"](
        pattern_pathstr=rule_path,
        input_file=inp,
        input_file_type=J["InputFileType"].binary if binary else J["InputFileType"].assembly,
        return_only_address=(addr == "A"),
        return_mode={"L": J["MatchingReturnMode"].matched_addrs_list,
                     "B": J["MatchingReturnMode"].bool,
                     "S": J["MatchingReturnMode"].all_instructions_string}[ret],
        matching_mode=J["MatchingSearchMode"].all_finds if srch == "A"
        else J["MatchingSearchMode"].first_find,
        macros=macro_paths or None,
    )


def run_pair(J, rule_path, macro_paths, inp, binary, fresh, want_regex=False, stream_only=False, repeat=False,
             interleave=None):
    """All nine observations of one (rule, input) pair.  With `repeat`, the stream (and the full list of matches)
    is asked for a second time from the SAME MasterOfPuppets object at the end (obs["again"])."""
    obs = {"outcome": "ok", "res": {}}
    stage = "construct"
    try:
        mop = J["MasterOfPuppets"](_mk_config(J, rule_path, macro_paths, inp, binary, ("S", "A", "T")))
        obs["g"] = snapshot_config(J)
        if want_regex:
            obs["regex"] = mop.regex_rule
        if interleave:
            # another rule is compiled between this rule's compilation and its matching (its result is not used)
            stage = "construct-other"
            J["MasterOfPuppets"](_mk_config(J, interleave, [], inp, binary, ("S", "A", "T")))
        stage = "match"
        obs["stream"] = mop.perform_matching()
        if fresh == "batch" and not stream_only:
            # all eight operations are constructed first and only then run (the modes must not leak between them)
            stage = "construct"
            mops = [(mode, J["MasterOfPuppets"](_mk_config(J, rule_path, macro_paths, inp, binary, mode))) for mode in MODES]
            stage = "match"
            for mode, m in mops:
                obs["res"]["".join(mode)] = m.perform_matching()
            return obs
        for mode in ([] if stream_only else MODES):
            if fresh:
                stage = "construct"
                mop = J["MasterOfPuppets"](_mk_config(J, rule_path, macro_paths, inp, binary, mode))
                stage = "match"
            else:
                mop.match_config = _mk_config(J, rule_path, macro_paths, inp, binary, mode)
            obs["res"]["".join(mode)] = mop.perform_matching()
        if repeat:
            stage = "match-again"
            again = {}
            mop.match_config = _mk_config(J, rule_path, macro_paths, inp, binary, ("S", "A", "T"))
            again["stream"] = mop.perform_matching()
            if not stream_only:
                mop.match_config = _mk_config(J, rule_path, macro_paths, inp, binary, ("L", "A", "T"))
                again["LAT"] = mop.perform_matching()
            obs["again"] = again
    except BaseException as exc:  # pylint: disable=broad-except
        if isinstance(exc, (KeyboardInterrupt, SystemExit)):
            raise
        obs["outcome"] = "error"
        obs["stage"] = stage
        obs["exc"] = f"{type(exc).__name__}: {exc}"[:300]
    return obs


def run_rule(job, ri, lis, listing_paths, tmp):
    """Executed in a forked child: one rule against the listings `lis`."""
    J = _imports()
    rule = job["rules"][ri]
    for k, v in (rule.get("env") or {}).items():   # confined to this forked child
        os.environ[k] = v
    if "rule_path" in rule:                        # used as is (missing file, directory, ...)
        rule_path = rule["rule_path"]
    else:
        rule_path = os.path.join(tmp, f"r{os.getpid()}.yaml")
        with open(rule_path, "w", encoding="utf-8") as f:
            f.write(rule["yaml"])
    if job.get("debug_level"):                     # the library's logger at DEBUG level (what `jasm --debug` sets)
        J["logger"].setLevel(logging.DEBUG)
    interleave = None
    if job.get("interleave"):
        interleave = os.path.join(tmp, f"r{os.getpid()}.other.yaml")
        with open(interleave, "w", encoding="utf-8") as f:
            f.write(job["interleave"])
    macro_paths = list(rule.get("macro_paths") or [])
    own = len(macro_paths)
    for n, text in enumerate(rule.get("macros") or []):
        mp = os.path.join(tmp, f"r{os.getpid()}.m{n}.yaml")
        with open(mp, "w", encoding="utf-8") as f:
            f.write(text)
        macro_paths.append(mp)
    out = []
    for li in lis:
        inp, binary = listing_paths[li]
        if job.get("stages"):
            # one first-match / boolean operation with its stage events (harness/stagetrace.py)
            import stagetrace
            try:
                o = {"outcome": "ok", "events": stagetrace.run(J, _mk_config(J, rule_path, macro_paths, inp, binary, ("B", "F", "T")))}
            except stagetrace.TracerUnavailable as exc:
                o = {"outcome": "unavailable", "why": str(exc)}
        else:
            o = run_pair(J, rule_path, macro_paths, inp, binary, job.get("fresh", False),
                         job.get("want_regex", False), job.get("stream_only", False), job.get("repeat", False),
                         interleave)
            if job.get("retry"):     # the same operation attempted a second time in the same process
                o["retry"] = run_pair(J, rule_path, macro_paths, inp, binary, job.get("fresh", False))
        o["r"], o["l"] = ri, li
        out.append(o)
    for p in ([] if "rule_path" in rule else [rule_path]) + macro_paths[own:] + ([interleave] if interleave else []):
        os.unlink(p)
    return out


def _isolated(fn, *args):
    """Run fn(*args) in a forked child and return its JSON-able result."""
    r, w = os.pipe()
    pid = os.fork()
    if pid == 0:
        os.close(r)
        code = 0
        try:
            data = json.dumps(fn(*args)).encode()
        except BaseException:  # pylint: disable=broad-except
            data = json.dumps({"__crash__": traceback.format_exc()[-2000:]}).encode()
            code = 3
        with os.fdopen(w, "wb") as f:
            f.write(data)
        os._exit(code)
    os.close(w)
    with os.fdopen(r, "rb") as f:
        data = f.read()
    os.waitpid(pid, 0)
    return json.loads(data)


def run_history(job, ops, listing_paths, tmp):
    """Executed in a forked child: a sequence of complete operations in ONE process.

    Files with the same content keep the same path within the process (as a user's files would): a macro file is
    written once per distinct content; an input declared with `copy_from` is copied onto one fixed per-process path
    before the operation, so that successive operations can see DIFFERENT content at the SAME path."""
    import hashlib
    import shutil
    J = _imports()
    out = []
    written = []
    for n, (ri, li) in enumerate(ops):
        rule = job["rules"][ri]
        rule_path = os.path.join(tmp, f"h{os.getpid()}.{n}.yaml")
        with open(rule_path, "w", encoding="utf-8") as f:
            f.write(rule["yaml"])
        macro_paths = list(rule.get("macro_paths") or [])
        own = len(macro_paths)
        for k, text in enumerate(rule.get("macros") or []):
            mp = os.path.join(tmp, f"h{os.getpid()}.macros.{hashlib.sha1(text.encode()).hexdigest()[:16]}.yaml")
            if not os.path.exists(mp):
                with open(mp, "w", encoding="utf-8") as f:
                    f.write(text)
                written.append(mp)
            macro_paths.append(mp)
        inp, binary = listing_paths[li]
        src = job["listings"][li].get("copy_from")
        if src:
            inp = os.path.join(tmp, f"h{os.getpid()}.current-input")
            shutil.copyfile(src, inp)
            # `cp -p` / reproducible-build artefacts: replaced content with the SAME size and the SAME timestamp
            os.utime(inp, ns=(1_600_000_000_000_000_000, 1_600_000_000_000_000_000))
            if inp not in written:
                written.append(inp)
        o = run_pair(J, rule_path, macro_paths, inp, binary, job.get("fresh", False), repeat=job.get("repeat", False))
        o["r"], o["l"] = ri, li
        out.append(o)
        os.unlink(rule_path)
    for p in written:
        if os.path.exists(p):
            os.unlink(p)
    return out


def _work_hist(chunk):
    job, listing_paths, tmp = _G["job"], _G["lp"], _G["tmp"]
    out = []
    for hi, ops in chunk:
        res = _isolated(run_history, job, ops, listing_paths, tmp)
        if isinstance(res, dict) and "__crash__" in res:
            raise RuntimeError(res["__crash__"])
        out.append({"h": hi, "events": res})
    return out


_G = {}


def _work(chunk):
    job, listing_paths, tmp = _G["job"], _G["lp"], _G["tmp"]
    out = []
    for ri, lis in chunk:
        if job.get("isolate", True):
            res = _isolated(run_rule, job, ri, lis, listing_paths, tmp)
        else:
            res = run_rule(job, ri, lis, listing_paths, tmp)
        if isinstance(res, dict) and "__crash__" in res:
            raise RuntimeError(res["__crash__"])
        out.extend(res)
    return out


def main():
    job_path, out_path = sys.argv[1], sys.argv[2]
    with open(job_path) as f:
        job = json.load(f)
    tmp = tempfile.mkdtemp(prefix="w", dir=os.path.dirname(os.path.abspath(out_path)))
    listing_paths = []
    for n, l in enumerate(job["listings"]):
        if "copy_from" in l:
            listing_paths.append((l["copy_from"], bool(l.get("binary"))))
        elif "path" in l:
            listing_paths.append((l["path"], bool(l.get("binary"))))
        else:
            p = os.path.join(tmp, f"l{n}.s")
            with open(p, "w", encoding="utf-8") as f:
                f.write(l["text"])
            listing_paths.append((p, False))
    procs = int(job.get("procs", min(16, os.cpu_count() or 4)))
    if "histories" in job:
        items = list(enumerate(job["histories"]))
        nchunks = max(1, min(len(items), procs * 8))
        chunks = [items[i::nchunks] for i in range(nchunks)]
        _G.update(job=job, lp=listing_paths, tmp=tmp)
        with multiprocessing.get_context("fork").Pool(procs) as pool:
            results = pool.map(_work_hist, chunks)
        flat = sorted((h for c in results for h in c), key=lambda h: h["h"])
        with open(out_path, "w") as f:
            json.dump(flat, f)
        import shutil
        shutil.rmtree(tmp, ignore_errors=True)
        return
    nl = len(job["listings"])
    if job.get("pairs", "all") == "all":
        per_rule = [(ri, list(range(nl))) for ri in range(len(job["rules"]))]
    else:
        d = {}
        for ri, li in job["pairs"]:
            d.setdefault(ri, []).append(li)
        per_rule = sorted(d.items())
    nchunks = max(1, min(len(per_rule), procs * 8))
    chunks = [per_rule[i::nchunks] for i in range(nchunks)]
    _G.update(job=job, lp=listing_paths, tmp=tmp)
    if procs == 1:
        results = [_work(c) for c in chunks]
    else:
        with multiprocessing.get_context("fork").Pool(procs) as pool:
            results = pool.map(_work, chunks)
    flat = [o for chunk in results for o in chunk]
    flat.sort(key=lambda o: (o["r"], o["l"]))
    with open(out_path, "w") as f:
        json.dump(flat, f)
    import shutil
    shutil.rmtree(tmp, ignore_errors=True)


if __name__ == "__main__":
    main()
