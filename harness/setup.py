"""MANIFEST.setup_cmd: parse every specification module (offline, nothing to build)."""
import glob
import os
import shutil
import subprocess
import tempfile

from .common import SPEC


def main():
    bad = 0
    tmp = tempfile.mkdtemp(prefix="jasmverif-setup-")
    mods = sorted(glob.glob(os.path.join(SPEC, "*.tla")))
    for m in mods:
        p = subprocess.run(["java", f"-Djava.io.tmpdir={tmp}", "-cp", "/opt/veriftools/tla/tla2tools.jar:/opt/veriftools/tla/CommunityModules-deps.jar",
                            "tla2sany.SANY", os.path.basename(m)], cwd=SPEC, capture_output=True, text=True)
        out = p.stdout + p.stderr
        if p.returncode != 0 or "*** Errors" in out or "Fatal" in out or "Could not" in out:
            print(f"SANY failed on {m}:\n{out[-1500:]}")
            bad += 1
    shutil.rmtree(tmp, ignore_errors=True)
    print(f"setup: {len(mods)} modules parsed, {bad} failed")
    return 2 if bad else 0
