"""C16: only the instruction sequence matters, not how the listing is presented.

  1. MC_C16: TLC checks the action property `an edit leaves Stream(listing) unchanged' over every sequence of
     up to MaxEdits presentation edits of every base listing and dumps the reachable states
  2. every reachable state's text (printed by TLC) is parsed by the real code; TLC validates the stream against
     Stream(listing) of that state (Trace_Parse, mode abs) and the results of a fixed set of rules (Trace_Match)
  3. real objdump: the same object printed with other options (-w, stripped symbols, --no-show-raw-insn);
     TLC validates that texts holding the same instruction sequence give the same stream (mode pair)
"""
import json
import random
import subprocess

from .. import matchpipe, objdump, parsepipe, render, tlc
from ..common import Report, MachineryError, load_known_findings, seed, scratch
from ..pat import seq, ins, lit, group

SECTIONS_RULE = "config:\n  sections:\n  - .text\npattern:\n- nop\n"
# a rule with an address range: the observer that tags branch targets must not read presentation either (the
# listing's direct and %rip-relative indirect branches, with and without their <sym> / # comment annotations)
RANGE_RULE = "config:\n  valid_addr_range:\n    min: '0x400000'\n    max: '0x40ffff'\npattern:\n- nop\n"
RULES = [seq(ins("call")), seq(ins("push"), ins("call")), seq(ins("mov", lit("rip"))), seq(group("not", ins("ret")), ins("ret"))]


def edit_states(report, tier):
    st = tlc.run("MC_C16", cfg=f"MC_C16_{tier}.cfg", dump=True, heap="16g")
    report.add_tlc(st, f"MC_C16 {tier}")
    if st["violated"]:
        raise MachineryError(f"MC_C16: the specification itself violates C16: {st['violated']}")
    states = list(tlc.read_dump(st["dump"]))
    tlc.cleanup(st)
    return states


def variants(rnd, n_objects):
    """(origin, lines default, lines variant) for small real objects."""
    out = []
    for k in range(n_objects):
        src = objdump.template_source(rnd, 25) if k % 2 == 0 else objdump.random_blob_source(rnd, 96)
        obj = objdump.assemble(src, f"v{k}")
        base = objdump.objdump_text(obj).split("\n")
        out.append(("-w", base, objdump.objdump_text(obj, ["-w"]).split("\n")))
        out.append(("--no-show-raw-insn", base, objdump.objdump_text(obj, ["--no-show-raw-insn"]).split("\n")))
        # symbols stripped: labels and <sym+off> annotations change (objdump then also prints direct
        # branch targets differently, so this variant uses branch-free code)
        nb = objdump.assemble(objdump.template_source(rnd, 25, branches=False), f"n{k}")
        stripped = nb + ".stripped"
        subprocess.run(["objcopy", "--strip-all", nb, stripped], check=True)
        out.append(("objcopy --strip-all", objdump.objdump_text(nb).split("\n"), objdump.objdump_text(stripped).split("\n")))
        out.append(("--show-raw-insn -w", base, objdump.objdump_text(obj, ["--show-raw-insn", "-w"]).split("\n")))
    return out


def run(prop, tier):
    report = Report(prop, tier)
    report.cov["rule"] = ("states = listings reachable by <= MaxEdits presentation edits (TLC, exhaustive); each printed by TLC and "
                          "parsed by the real code; non-trivial = states with nedits >= 1 (a real edit happened), distinct by "
                          "TLC's state fingerprint; plus pairs of real objdump printings of the same object")
    states = edit_states(report, tier)
    texts = ["\n".join(s["text"]) + "\n" for s in states]
    obs = parsepipe.parse_texts(texts, "c16")
    cases = [parsepipe.case("abs", s["text"], s["listing"], o) for s, o in zip(states, obs)]
    # the same under a rule that names sections: for a listing the `sections' option selects nothing (it is an
    # option of the disassembler run, C15), so section header lines stay presentation
    # (all states in the quick tier; in the thorough tier the states that hold a section header line, where the option
    #  could matter, and every tenth of the others -- the validation of 200 000 listings takes TLC more than an hour)
    sel_s = [i for i, s in enumerate(states)
             if tier == "quick" or i % 10 == 0 or any(l["kind"] == "section" for l in s["listing"])]
    obs_s = parsepipe.parse_texts([texts[i] for i in sel_s], "c16s", rule=SECTIONS_RULE)
    cases += [parsepipe.case("abs", states[i]["text"], states[i]["listing"], o) for i, o in zip(sel_s, obs_s)]
    verdicts = parsepipe.validate(cases, report, "c16a")
    for c, v, s in zip(cases, verdicts, states + [states[i] for i in sel_s]):
        if v.startswith("rej"):
            if v[4:].startswith("MACHINERY"):
                raise MachineryError(f"C16: {v}")
            if len(report.violations) < 50:
                report.violation(v[4:], {"kind": "parse", "mode": "abs", "lines": c["lines"], "listing": c["listing"],
                                         "observed": {"outcome": c["outcome"], "stream": c["stream"]}})
    # the same under a rule with valid_addr_range: states that hold the same instructions (the edits never change
    # them) must give the same stream as the first state of their group (Trace_Parse, mode pair)
    def core(s):
        return json.dumps([[l["addr"], l["mn"], l["ops"]] for l in s["listing"] if l["kind"] == "insn"], sort_keys=True)
    first = {}
    for i, s in enumerate(states):
        first.setdefault(core(s), i)
    # (all states in the quick tier, every tenth in the thorough tier -- see the remark on validation time above)
    sel_r = [i for i, s in enumerate(states) if tier == "quick" or i % 10 == 0]
    need = sorted(set(sel_r) | {first[core(states[i])] for i in sel_r})
    robs = dict(zip(need, parsepipe.parse_texts([texts[i] for i in need], "c16r", rule=RANGE_RULE)))
    rcases = [parsepipe.case("pair", states[first[core(states[i])]]["text"], [], robs[first[core(states[i])]], states[i]["text"], robs[i])
              for i in sel_r if first[core(states[i])] != i]
    rverd = parsepipe.validate(rcases, report, "c16r")
    for c, v in zip(rcases, rverd):
        if v.startswith("skip"):
            raise MachineryError(f"C16 range pass: states of one group do not hold the same instructions: {v}")
        if v.startswith("rej") and len(report.violations) < 50:
            report.violation(v[4:].split("|")[0] + " (under a rule with valid_addr_range)",
                             {"kind": "parse", "mode": "pair", "lines": c["lines"], "lines2": c["lines2"], "rule": RANGE_RULE,
                              "observed": {"stream": c["stream"], "stream2": c["stream2"]}})
    # results of fixed rules on every state: validated against the pattern semantics on Stream(listing)
    job_rules = [{"id": n, "yaml": render.dump_yaml(render.rule_doc(P))} for n, P in enumerate(RULES)]
    step = 1 if tier == "thorough" or len(states) < 4000 else 2
    sel = list(range(0, len(states), step))
    mobs = matchpipe.drive({"rules": job_rules, "listings": [{"id": n, "text": texts[i]} for n, i in enumerate(sel)],
                            "pairs": "all"}, tag="c16m")
    lsts = [states[i]["stream"] for i in sel]
    mcases = [matchpipe.case_of(o, o["r"] + 1, o["l"] + 1, False, False) for o in mobs]
    mverd = matchpipe.validate(RULES, lsts, mcases, report, "c16m")
    for c, v, o in zip(mcases, mverd, mobs):
        if v.startswith("rej") and len(report.violations) < 50:
            report.violation("results differ under a presentation edit: " + v[4:],
                             {"kind": "match", "pattern": RULES[c["p"] - 1], "listing": lsts[c["l"] - 1],
                              "listing_text": texts[sel[c["l"] - 1]], "observed": o})
    # listings of realistic length with the symbol labels at different places (spec/Export_C16Long.tla)
    long_rules = [seq(ins("ret"), ins("push"), ins("mov")), seq(ins("pop"), ins("ret"), ins("push")), seq(ins("mov"), ins("pop"))]
    UL = matchpipe.export_universe("Export_C16Long", "Export_C16Long.cfg", report)
    ljob = [{"id": n, "yaml": render.dump_yaml(render.rule_doc(P))} for n, P in enumerate(long_rules)]
    lobs = matchpipe.drive({"rules": ljob, "listings": [{"id": n, "text": "\n".join(t) + "\n"} for n, t in enumerate(UL["texts"])],
                            "pairs": "all"}, tag="c16l")
    lcases = [matchpipe.case_of(o, o["r"] + 1, 1, False, False) for o in lobs]
    lverd = matchpipe.validate(long_rules, [UL["stream"]], lcases, report, "c16l")
    for c, v, o in zip(lcases, lverd, lobs):
        if v.startswith("rej") and len(report.violations) < 50:
            report.violation("results depend on where the symbol labels are: " + v[4:],
                             {"kind": "match", "pattern": long_rules[c["p"] - 1], "listing": UL["stream"],
                              "listing_text": "\n".join(UL["texts"][o["l"]]) + "\n", "observed": o})
    mcases, mverd = mcases + lcases, mverd + lverd
    # long texts (> 1 MiB, a line ending exactly at character 2**20) with and without blank lines in front: the
    # stream is the block's instructions repeated, whatever the alignment of the lines to powers of two
    from . import parseprops
    U8 = matchpipe.export_universe("Export_C08", f"Export_C08_{tier}.cfg", report)
    block = U8["scale_block"]
    sc = [(k, t) for k, t in parseprops.scale_cases(block, tier) if k >= 4000][:1]
    stexts, sreps = [], []
    for k, t in sc:
        for lead in ("", "\n", "\n\n\n"):
            stexts.append(lead + t)
            sreps.append(k)
    sobs = parsepipe.parse_texts(stexts, "c16s2")
    scases = []
    for k, o in zip(sreps, sobs):
        c = parsepipe.case("scale", block, [], o)
        c["reps"] = k
        scases.append(c)
    sverd = parsepipe.validate(scases, report, "c16scale")
    for c, v, t in zip(scases, sverd, stexts):
        if v.startswith("rej") and len(report.violations) < 50:
            report.violation("the stream of a long listing depends on blank lines in front of it: " + v[4:],
                             {"kind": "parse", "mode": "scale", "lines": block, "reps": c["reps"], "leading_newlines": len(t) - len(t.lstrip("\n")),
                              "observed": {"outcome": c["outcome"], "stream_len": len(c["stream"])}})
    # real objdump variants
    rnd = random.Random(seed() * 31 + 7)
    vs = variants(rnd, 12 if tier == "quick" else 150)
    flat = []
    for _, a, b in vs:
        flat += ["\n".join(a) + "\n", "\n".join(b) + "\n"]
    vobs = parsepipe.parse_texts(flat, "c16v")
    pcases = [parsepipe.case("pair", a, [], vobs[2 * n], b, vobs[2 * n + 1]) for n, (_, a, b) in enumerate(vs)]
    pverd = parsepipe.validate(pcases, report, "c16v")
    known = [f for f in load_known_findings() if f["status"] == "known" and f["property"] == prop and f.get("tag")]
    skipped = 0
    for (origin, a, b), c, v in zip(vs, pcases, pverd):
        if v.startswith("skip"):
            skipped += 1
        if v.startswith("rej"):
            tags = v.split("|")[1:]
            hit = [f for f in known if f["tag"] in tags]
            if hit:
                report.known_finding(hit[0]["id"], hit[0]["what"])
                report.cov["known_finding_cases"] = report.cov.get("known_finding_cases", 0) + 1
            elif len(report.violations) < 50:
                report.violation(v[4:] + f" (objdump {origin})", {"kind": "parse", "mode": "pair", "lines": a, "lines2": b,
                                                                 "observed": {"stream": c["stream"], "stream2": c["stream2"]}})
    report.cov["evaluations"] = len(cases) + len(mcases) + len(pcases) + len(scases) + len(rcases)
    report.cov["traces_validated_against_impl"] = len(cases) + len(mcases) + len(pcases) + len(scases)
    report.cov["distinct_nontrivial"] = sum(1 for s in states if s["nedits"] >= 1) + len(pcases) - skipped
    report.cov["parts"] = [{"part": "edit states (TLC), each under a plain rule and under a rule with `sections`", "states": len(states), "rejected": sum(v.startswith("rej") for v in verdicts)},
                           {"part": "edit states under a rule with valid_addr_range, against the first state with the same instructions", "pairs": len(rcases), "rejected": sum(v.startswith("rej") for v in rverd)},
                           {"part": "rule results on edit states", "cases": len(mcases), "rejected": sum(v.startswith("rej") for v in mverd)},
                           {"part": "real objdump variants", "pairs": len(pcases), "not_comparable": skipped,
                            "rejected": sum(v.startswith("rej") for v in pverd)}]
    report.cov["exhaustive"] = True
    for s, v in list(zip(states, verdicts))[:: max(1, len(states) // 3)][:3]:
        report.sample({"nedits": s["nedits"], "text": s["text"], "spec_stream": s["stream"], "tlc_verdict": v})
    report.assumptions += ["installed binutils 2.40", "bounded: <= MaxEdits edits of the base listings of spec/MC_C16.tla"]
    return report.finish()


def replay(prop, path):
    with open(path) as f:
        kind = json.load(f)["case"].get("kind")
    if kind == "match":
        from . import matchprops
        return matchprops.replay(prop, path)
    from . import parseprops
    return parseprops.replay(prop, path)
