"""C17: failures are loud -- single-fault enumeration.

The fault kinds, the stage each belongs to and the modes in which it applies are defined in spec/JasmOperation.tla
(model-checked: C17_Loud, FaultEnds).  TLC exports the placements; this module realises every kind in every concrete
way listed below, injects it alone into a valid (rule, input) pair whose fault-free verdict is "found", runs the real
operation, and TLC validates the observed terminal outcome against the specification (Trace_Faults).
"""
import json
import os
import stat

from .. import matchpipe, objdump, tlc
from ..common import Report, MachineryError, load_known_findings, scratch

LISTING = """
a.out:     file format elf64-x86-64


Disassembly of section .text:

0000000000401000 <f>:
  401000:\t53                   \tpush   %rbx
  401001:\te8 02 00 00 00       \tcall   401008 <g>
  401006:\t5b                   \tpop    %rbx
  401007:\tc3                   \tret
"""
BIN_SRC = "\t.text\nf:\n\tpush %rbx\n\tcall g\n\tpop %rbx\n\tret\ng:\n\tret\n"
BASE = "pattern:\n- push\n- call\n- pop\n"
# Contexts: the same single fault inside a document that also has a (valid) config section / (valid, unused) macro
# definitions -- "an otherwise valid pair" is not only the three-line rule.  A context is applied only to documents
# that are mappings with none of that section, so the fault stays the only thing wrong with the pair.
CONTEXTS = {
    "config": ("config:\n  mnemonics-full-match: true\n  operands-full-match: false\n  sections:\n  - .text\n", "config:",
               ("rule_bad_yaml", "rule_not_mapping")),
    "macros": ("macros:\n- name: '@zz'\n  pattern: nop\n", "macros:",
               ("rule_bad_yaml", "rule_not_mapping", "macro_undefined_nodefs")),
}


def in_context(kind, r):
    """the realisation's rule inside each applicable context: list of (context name, rule dict)"""
    out = []
    text = r.get("yaml", BASE)
    if "rule_path" in r:
        return out
    for name, (prefix, key, excluded) in CONTEXTS.items():
        if kind in excluded or any(line.startswith(key) for line in text.split("\n")):
            continue
        out.append((name, dict(r, yaml=prefix + text)))
    return out


def realisations(kind, d):
    """kind -> list of (label, dict(rule overrides), dict(input override))"""
    R = []

    def rule(label, text=None, **kw):
        r = dict(kw)
        if text is not None:
            r["yaml"] = text
        R.append((label, r, {}))

    def inp(label, **kw):
        R.append((label, {}, kw))

    if kind == "rule_missing":
        rule("no such file", rule_path=os.path.join(d, "does-not-exist.yaml"))
    elif kind == "rule_is_dir":
        rule("directory instead of file (also stands in for 'unreadable': permission bits do not bind root)", rule_path=d)
    elif kind == "rule_bad_yaml":
        for n, t in enumerate(["pattern: [push, call", "pattern:\n\t- push\n", "pattern:\n- push\n  - call: [\n",
                               "pattern: {push: ]\n"]):
            rule(f"malformed yaml #{n}", t)
    elif kind == "rule_not_mapping":
        rule("top-level list", "- push\n- call\n")
        rule("top-level string", "push\n")
        rule("empty document", "")
    elif kind == "config_wrong_type":
        rule("config is a list", "config:\n- a\n" + BASE)
        rule("config is a string", "config: x\n" + BASE)
        rule("config is null", "config:\n" + BASE)
    elif kind == "range_wrong_type":
        # the verdict of this rule depends on the range (the call is found only if it is tagged)
        good = "config:\n  valid_addr_range:\n    min: '0x401000'\n    max: '0x401fff'\npattern:\n- push\n- call:\n  - valid_addr\n"
        rule("range bounds are unquoted hexadecimal (YAML integers)", good.replace("'0x401000'", "0x401000").replace("'0x401fff'", "0x401fff"))
        rule("range min is an unquoted decimal-looking address", good.replace("'0x401000'", "401000"))
        rule("range is a list", "config:\n  valid_addr_range:\n  - '0x401000'\n  - '0x401fff'\npattern:\n- push\n- call:\n  - valid_addr\n")
        rule("range max is missing", "config:\n  valid_addr_range:\n    min: '0x401000'\npattern:\n- push\n- call:\n  - valid_addr\n")
    elif kind == "flag_wrong_type":
        rule("mnemonics-full-match is a string", "config:\n  mnemonics-full-match: 'yes'\n" + BASE)
        rule("operands-full-match is an int", "config:\n  operands-full-match: 1\n" + BASE)
    elif kind == "sections_wrong_type":
        rule("sections is a string", "config:\n  sections: .text\n" + BASE)
        rule("sections holds an int", "config:\n  sections:\n  - 1\n" + BASE)
    elif kind == "macros_wrong_type":
        rule("macros is a mapping", "macros:\n  name: '@a'\n" + BASE)
        rule("macros is a string", "macros: x\n" + BASE)
    elif kind == "macro_file_missing":
        rule("extra macro file does not exist", BASE, macro_paths=[os.path.join(d, "no-such-macros.yaml")])
    elif kind == "macro_file_bad":
        rule("extra macro file is malformed yaml", BASE, macros=["macros: [\n"])
        rule("extra macro file has no macros key", BASE, macros=["other: 1\n"])
    elif kind == "macro_undefined":
        rule("undefined macro as item", "macros:\n- name: '@a'\n  pattern: push\n" + BASE + "- '@b'\n")
        rule("undefined macro as operand", "macros:\n- name: '@a'\n  pattern: push\n" + BASE + "- ret:\n  - '@b'\n")
        rule("undefined macro as item key with times", "macros:\n- name: '@a'\n  pattern: push\n" + BASE + "- '@b':\n    times: 2\n")
        rule("undefined macro as item key with operands", "macros:\n- name: '@a'\n  pattern: push\n" + BASE + "- '@b':\n  - '%rax'\n")
        rule("undefined macro in a $deref field", "macros:\n- name: '@a'\n  pattern: push\n" + BASE
             + "- mov:\n  - $deref:\n      main_reg: '@b'\n")
        rule("undefined macro, definitions from an extra file", BASE + "- '@b'\n",
             macros=["macros:\n- name: '@a'\n  pattern: push\n"])
    elif kind == "macro_undefined_nodefs":
        rule("undefined macro, no macro definition anywhere", "pattern:\n- push\n- '@b'\n")
    elif kind == "macro_name_no_at":
        rule("macro name without @", "macros:\n- name: a\n  pattern: push\n" + BASE)
    elif kind == "pattern_missing":
        rule("no pattern key", "config:\n  style: att\n")
    elif kind == "pattern_null":
        rule("pattern is null", "pattern:\n")
    elif kind == "pattern_wrong_type":
        rule("pattern is a string", "pattern: push\n")
        # `pattern: {push: []}` is not listed: the reader gives an (ordered) mapping the meaning of an item
        # sequence and scans with it, so it is not a document that "cannot be parsed"
        rule("pattern is an empty list", "pattern: []\n")
        rule("pattern is an int", "pattern: 5\n")
    elif kind == "empty_group":
        for g in ("$and", "$or", "$and_any_order"):
            rule(f"empty {g}", f"pattern:\n- push\n- {g}: []\n")
            rule(f"empty {g} in operand list", f"pattern:\n- push:\n  - {g}: []\n")
    elif kind == "not_arity":
        rule("$not without argument", "pattern:\n- push\n- $not: []\n")
        rule("$not with two arguments", "pattern:\n- push\n- $not:\n  - ret\n  - nop\n")
        rule("operand $not with two arguments", "pattern:\n- push:\n  - $not:\n    - a\n    - b\n")
    elif kind == "deref_no_main_reg":
        rule("$deref without main_reg", "pattern:\n- push:\n  - $deref:\n      constant_offset: '0x8'\n")
        rule("$deref with index and scale but no main_reg",
             "pattern:\n- push:\n  - $deref:\n      register_multiplier: '%rax'\n      constant_multiplier: 8\n")
        rule("$deref with everything but main_reg", "pattern:\n- push:\n  - $deref:\n      constant_offset: '0x10'\n"
             "      register_multiplier: '%rax'\n      constant_multiplier: 8\n- call\n")
        rule("$deref without main_reg as second operand", "pattern:\n- push\n- mov:\n  - '%rax'\n  - $deref:\n      register_multiplier: rbx\n")
    elif kind == "times_negative":
        rule("times: -1 (body)", "pattern:\n- push\n- call:\n    times: -1\n")
        rule("times min -1", "pattern:\n- push\n- call:\n    times:\n      min: -1\n      max: 2\n")
        rule("times -2 (sibling)", "pattern:\n- push\n- $or:\n  - call\n  times: -2\n")
        rule("times min -1 max 0", "pattern:\n- push\n- call:\n    times:\n      min: -1\n      max: 0\n")
    elif kind == "times_inverted":
        rule("min 3 max 1", "pattern:\n- push\n- call:\n    times:\n      min: 3\n      max: 1\n")
        rule("min 2 max 1 (sibling)", "pattern:\n- push\n- $and:\n  - call\n  times:\n    min: 2\n    max: 1\n")
        # the swapped bounds of a valid {min: 0, max: 3}; max exactly 0
        rule("min 3 max 0", "pattern:\n- push\n- call:\n    times:\n      min: 3\n      max: 0\n")
        rule("min 1 max 0 (sibling)", "pattern:\n- push\n- $or:\n  - call\n  times:\n    min: 1\n    max: 0\n")
        rule("max 0 written first", "pattern:\n- push\n- call:\n    times:\n      max: 0\n      min: 2\n")
    elif kind == "input_missing":
        inp("input does not exist", path=os.path.join(d, "no-such-input"))
    elif kind == "input_is_dir":
        inp("input is a directory (also stands in for 'unreadable')", path=d)
    elif kind == "input_not_utf8":
        p = os.path.join(d, "latin.s")
        with open(p, "wb") as f:
            f.write(LISTING.encode() + b"\xff\xfe\xfa\n")
        inp("listing is not UTF-8", path=p)
    elif kind == "input_not_object":
        p = os.path.join(d, "text-as-binary")
        with open(p, "w") as f:
            f.write(LISTING)
        inp("input is not an object file", path=p)
    elif kind == "objdump_absent":
        e = os.path.join(d, "emptybin")
        os.makedirs(e, exist_ok=True)
        rule("objdump not on PATH", BASE, env={"PATH": e})
    elif kind == "objdump_fails":
        e = os.path.join(d, "shimbin")
        os.makedirs(e, exist_ok=True)
        sh = os.path.join(e, "objdump")
        with open(sh, "w") as f:
            f.write("#!/bin/sh\necho 'objdump: boom' >&2\nexit 1\n")
        os.chmod(sh, os.stat(sh).st_mode | stat.S_IEXEC)
        rule("objdump exits 1", BASE, env={"PATH": e + ":/usr/bin:/bin"})
        e2 = os.path.join(d, "shimbin2")
        os.makedirs(e2, exist_ok=True)
        sh2 = os.path.join(e2, "objdump")
        with open(sh2, "w") as f:   # dies half way: part of the listing is already on stdout
            f.write("#!/bin/sh\nprintf '\\nx.o:     file format elf64-x86-64\\n\\n   0:\\t53                   \\tpush   %%rbx\\n'\n"
                    "echo 'objdump: internal error' >&2\nexit 1\n")
        os.chmod(sh2, os.stat(sh2).st_mode | stat.S_IEXEC)
        rule("objdump prints part of the listing, then exits 1", BASE, env={"PATH": e2 + ":/usr/bin:/bin"})
        e3 = os.path.join(d, "shimbin3")
        os.makedirs(e3, exist_ok=True)
        sh3 = os.path.join(e3, "objdump")
        with open(sh3, "w") as f:
            f.write("#!/bin/sh\nkill -SEGV $$\n")
        os.chmod(sh3, os.stat(sh3).st_mode | stat.S_IEXEC)
        rule("objdump killed by a signal", BASE, env={"PATH": e3 + ":/usr/bin:/bin"})
    elif kind == "section_missing":
        rule("config.sections names a section the file does not have", "config:\n  sections:\n  - .nope\n" + BASE)
    else:
        raise MachineryError(f"no realisation for fault kind {kind}")
    return R


def outcome_of(o):
    if o["outcome"] != "ok":
        return "error"
    return "found" if o["res"]["LAT"] else "notfound"


def run(prop, tier):
    report = Report(prop, tier, level="fault_enumeration")
    st = tlc.run("JasmOperation", cfg="JasmOperation.cfg")
    report.add_tlc(st, "JasmOperation (C17_Loud, FaultEnds)")
    if st["violated"]:
        raise MachineryError(f"JasmOperation violated {st['violated']}")
    tlc.cleanup(st)
    out = os.path.join(scratch(), "u17.json")
    ex = tlc.run("Export_C17", cfg="Export_C17.cfg", env={"JASM_OUT": out}, workers=1)
    tlc.cleanup(ex)
    with open(out) as f:
        placements = json.load(f)["placements"]
    d = os.path.join(scratch(), "c17")
    os.makedirs(d, exist_ok=True)
    text_path = os.path.join(d, "good.s")
    with open(text_path, "w") as f:
        f.write(LISTING)
    obj = objdump.assemble(BIN_SRC, "c17bin")
    good_input = {"text": {"path": text_path, "binary": False}, "bin": {"path": obj, "binary": True}}
    rules, listings, pairs, meta = [], [], [], []
    for mode in ("text", "bin"):   # fault-free baseline
        rules.append({"id": len(rules), "yaml": BASE})
        listings.append(dict(good_input[mode], id=len(listings)))
        pairs.append([len(rules) - 1, len(listings) - 1])
        meta.append(("none", mode, "fault-free baseline"))
        for name, (prefix, _, _) in CONTEXTS.items():
            rules.append({"id": len(rules), "yaml": prefix + BASE})
            pairs.append([len(rules) - 1, len(listings) - 1])
            meta.append(("none", mode, f"fault-free baseline, {name} context"))
    for kind, mode in placements:
        reals = realisations(kind, d)
        reals += [(f"{label} [{name} context]", r2, i) for label, r, i in reals for name, r2 in in_context(kind, r)]
        for label, r, i in reals:
            r = dict(r)
            r.setdefault("yaml", BASE)
            r["id"] = len(rules)
            rules.append(r)
            li = dict(good_input[mode])
            if i:
                li = {"path": i["path"], "binary": mode == "bin"}
            li["id"] = len(listings)
            listings.append(li)
            pairs.append([len(rules) - 1, len(listings) - 1])
            meta.append((kind, mode, label))
    obs = matchpipe.drive({"rules": rules, "listings": listings, "pairs": pairs, "retry": True}, tag="c17")
    by = {(o["r"], o["l"]): o for o in obs}
    cases, olist = [], []
    for (ri, li), (kind, mode, label) in zip(pairs, meta):
        o = by[(ri, li)]
        olist.append(o)
        cases.append({"fault": kind, "mode": mode, "outcome": outcome_of(o)})
    # the same faulty operation attempted a second time in the same process must end the same way (a failure must
    # not leave anything behind that turns the retry into a silent "not found")
    n1 = len(pairs)
    for (ri, li), (kind, mode, label) in list(zip(pairs, meta))[:n1]:
        o2 = by[(ri, li)]["retry"]
        olist.append(o2)
        cases.append({"fault": kind, "mode": mode, "outcome": outcome_of(o2)})
        pairs.append([ri, li])
        meta.append((kind, mode, label + " (second attempt in the same process)"))
    path = os.path.join(scratch(), "c17.cases.json")
    with open(path, "w") as f:
        json.dump({"cases": cases}, f)
    tv = tlc.run("Trace_Faults", env={"JASM_CASES": path}, dump=True)
    report.add_tlc(tv, "Trace_Faults")
    verdicts = [None] * len(cases)
    for s in tlc.read_dump(tv["dump"]):
        if s["verdict"] != "?":
            verdicts[s["idx"] - 1] = s["verdict"]
    tlc.cleanup(tv)
    known = {f["tag"]: f for f in load_known_findings() if f["status"] == "known" and f["property"] == prop and f.get("tag")}
    for c, v, o, (kind, mode, label), (ri, li) in zip(cases, verdicts, olist, meta, pairs):
        if v is None or v.startswith("rej:MACHINERY"):
            raise MachineryError(f"C17 case {kind}/{mode}/{label}: {v} ({o.get('exc')})")
        if v.startswith("rej"):
            if kind in known:
                report.known_finding(known[kind]["id"], known[kind]["what"])
                continue
            report.violation(f"{v[4:]}: {kind} [{label}] in {mode} mode",
                             {"kind": "fault", "fault": kind, "mode": mode, "label": label,
                              "rule": {k: rules[ri][k] for k in rules[ri] if k != "id"},
                              "input": listings[li], "observed": o})
    report.cov["evaluations"] = len(cases)
    report.cov["traces_validated_against_impl"] = len(cases)
    report.cov["distinct_nontrivial"] = len({(k, m, l) for (k, m, l) in meta if k != "none"})
    report.cov["rule"] = ("one case per (fault kind of spec/JasmOperation.tla, mode, concrete realisation), injected alone into a "
                          "valid pair whose fault-free verdict is 'found' (baseline re-checked); non-trivial = every case with a "
                          "fault; distinct by (kind, mode, realisation)")
    report.cov["fault_kinds"] = sorted({k for k, _, _ in meta if k != "none"})
    report.cov["exhaustive"] = True
    for n in range(0, len(cases), max(1, len(cases) // 5)):
        report.sample({"fault": meta[n][0], "mode": meta[n][1], "realisation": meta[n][2],
                       "observed": cases[n]["outcome"], "exception": olist[n].get("exc"), "tlc_verdict": verdicts[n]})
    report.assumptions += ["permission-denied files cannot be produced as root: 'unreadable' is realised as 'is a directory'",
                           "single faults only (the property's quantifier)"]
    return report.finish()


def replay(prop, path):
    from ..common import replay_by_rerun
    return replay_by_rerun(prop, path)
