"""C15: matching a binary equals matching its `objdump -d -M att` text.

  1. MC_C15: design-level model check of JasmBinary (routes agree, -j order irrelevant, absent section = error,
     shape of the command line)
  2. objects with several executable sections and a data section are assembled (AT&T templates and random bytes);
     for every `sections' list of the specification's universe:
       route A: JASM in binary mode; a PATH shim records the command line JASM hands to objdump
       route B: the harness runs the command line the SPECIFICATION prescribes (Argv) and JASM reads that text
     TLC validates command line, failure parity, stream and results (Trace_Binary)
"""
import json
import os
import random
import stat
import subprocess

from .. import matchpipe, objdump, tlc
from ..common import Report, MachineryError, REPO, scratch, seed

RULES = ["pattern:\n- call\n", "pattern:\n- mov\n- $not:\n  - ret\n", "pattern:\n- nop:\n    times:\n      min: 1\n      max: 3\n"]


def object_source(rnd, k):
    parts = [objdump.template_source(rnd, 12)]
    parts.append(objdump.random_blob_source(rnd, 48, section=".foo") if k % 2 else
                 "\t.section .foo,\"ax\",@progbits\nh:\n\tnop\n\tnop\n\tcall h\n\tret\n")
    if k % 3:
        parts.append("\t.section .plt.got,\"ax\",@progbits\np:\n\tjmp *0x10(%rip)\n\tnop\n")
    parts.append("\t.section .text.Foo_Bar,\"ax\",@progbits\nFoo_Bar:\n\tmov %rax,%rbx\n\tnop\n\tcall Foo_Bar\n\tret\n")
    parts.append("\t.data\nd:\n\t.byte 0x90,0x90,0xc3,0x00\n")
    return "".join(parts)


def run(prop, tier):
    report = Report(prop, tier)
    st = tlc.run("MC_C15", cfg="MC_C15.cfg")
    report.add_tlc(st, "MC_C15")
    if st["violated"]:
        raise MachineryError(f"MC_C15 violated {st['violated']}")
    tlc.cleanup(st)
    out = os.path.join(scratch(), "u15.json")
    ex = tlc.run("Export_C15", cfg="Export_C15.cfg", env={"JASM_OUT": out}, workers=1)
    tlc.cleanup(ex)
    with open(out) as f:
        lists = json.load(f)["lists"]
    d = os.path.join(scratch(), "c15")
    os.makedirs(d, exist_ok=True)
    shim_dir = os.path.join(d, "shim")
    os.makedirs(shim_dir)
    shim = os.path.join(shim_dir, "objdump")
    with open(shim, "w") as f:
        f.write('#!/bin/sh\nprintf \'%s\\n\' "objdump" "$@" > "$JASM_VERIF_ARGV_LOG"\nexec /usr/bin/objdump "$@"\n')
    os.chmod(shim, os.stat(shim).st_mode | stat.S_IEXEC)
    rnd = random.Random(seed() * 101 + 3)
    n_obj = 6 if tier == "quick" else 120
    objs = [objdump.assemble(object_source(rnd, k), f"c15o{k}") for k in range(n_obj)]
    # address layouts: every third object gets a section at a high-half address (objdump then prints the address
    # flush left, without the leading blanks), another one at an address of 9 hex digits
    for k in range(0, n_obj, 3):
        moved = objs[k] + ".moved"
        subprocess.run(["objcopy", "--change-section-address", ".foo=0xffffffff81000000",
                        "--change-section-address", ".text.Foo_Bar=0x100000000", objs[k], moved], check=True)
        objs[k] = moved
    for extra in ("tests/binary/binary_data.bin", "tests/binary/smc.bin") if tier == "thorough" else ():
        p = os.path.join(REPO, extra)
        if os.path.exists(p):
            objs.append(p)
    rules, listings, pairs, meta = [], [], [], []
    for oi, obj in enumerate(objs):
        for li, L in enumerate(lists):
            secs = L["sections"]
            cfg = ("config:\n  sections:\n" + "".join(f"  - {s}\n" for s in secs)) if secs else ""
            argv = [obj if a == "FILE" else a for a in L["argv"]]
            p = subprocess.run(argv, capture_output=True, text=True)
            b_ok = p.returncode == 0
            tpath = os.path.join(d, f"o{oi}l{li}.s")
            with open(tpath, "w") as f:
                f.write(p.stdout if b_ok else "")
            for ri, rule in enumerate(RULES):
                log = os.path.join(d, f"argv-{oi}-{li}-{ri}.log")
                rules.append({"id": len(rules), "yaml": cfg + rule,
                              "env": {"PATH": shim_dir + ":/usr/bin:/bin", "JASM_VERIF_ARGV_LOG": log}})
                a_rule = len(rules) - 1
                rules.append({"id": len(rules), "yaml": cfg + rule})
                b_rule = len(rules) - 1
                listings.append({"id": len(listings), "path": obj, "binary": True})
                listings.append({"id": len(listings), "path": tpath, "binary": False})
                pairs += [[a_rule, len(listings) - 2], [b_rule, len(listings) - 1]]
                meta.append(dict(obj=obj, sections=secs, argv_spec=argv, b_ok=b_ok, a=(a_rule, len(listings) - 2),
                                 b=(b_rule, len(listings) - 1), log=log, rule=rule, objdump_err=p.stderr[:200]))
    obs = matchpipe.drive({"rules": rules, "listings": listings, "pairs": pairs}, tag="c15")
    by = {(o["r"], o["l"]): o for o in obs}
    cases = []
    for m in meta:
        a, b = by[m["a"]], by[m["b"]]
        argv = []
        if os.path.exists(m["log"]):
            with open(m["log"]) as f:
                argv = f.read().split("\n")[:-1]
        cases.append({"sections": m["sections"], "file": m["obj"], "a_argv": argv, "a_outcome": a["outcome"],
                      "a_stream": a.get("stream", ""), "a_res": json.dumps(a.get("res", {}), sort_keys=True),
                      "b_objdump_ok": m["b_ok"], "b_outcome": b["outcome"], "b_stream": b.get("stream", ""),
                      "b_res": json.dumps(b.get("res", {}), sort_keys=True)})
    path = os.path.join(scratch(), "c15.cases.json")
    with open(path, "w") as f:
        json.dump({"cases": cases}, f)
    tv = tlc.run("Trace_Binary", env={"JASM_CASES": path}, dump=True)
    report.add_tlc(tv, "Trace_Binary")
    verdicts = [None] * len(cases)
    for s in tlc.read_dump(tv["dump"]):
        if s["verdict"] != "?":
            verdicts[s["idx"] - 1] = s["verdict"]
    tlc.cleanup(tv)
    for c, v, m in zip(cases, verdicts, meta):
        if v is None or v.startswith("rej:MACHINERY"):
            raise MachineryError(f"C15: {v} for {m['sections']} ({by[m['b']].get('exc')})")
        if v.startswith("rej") and len(report.violations) < 50:
            report.violation(f"{v[4:]} sections={m['sections']}",
                             {"kind": "binary", "sections": m["sections"], "rule": m["rule"], "object": m["obj"],
                              "argv_spec": m["argv_spec"], "argv_observed": c["a_argv"],
                              "a": by[m["a"]], "b_objdump_ok": m["b_ok"], "b": by[m["b"]]})
    report.cov["evaluations"] = len(cases)
    report.cov["traces_validated_against_impl"] = len(cases)
    report.cov["distinct_nontrivial"] = len({(m["obj"], tuple(m["sections"])) for m, c in zip(meta, cases)
                                             if (not m["b_ok"]) or c["b_stream"]})
    report.cov["rule"] = ("cases = (assembled object, sections list of spec/MC_C15.tla!ExportLists, rule); non-trivial = the "
                          "selected sections hold at least one instruction or objdump rejects the selection; distinct by "
                          "(object, sections); object contents are sampled (templates, random bytes; seed-dependent), the "
                          "configuration space is enumerated completely")
    report.cov["objects"] = len(objs)
    report.cov["both_fail_cases"] = sum(v == "ok:bothfail" for v in verdicts)
    for n in range(0, len(cases), max(1, len(cases) // 4)):
        report.sample({"sections": cases[n]["sections"], "argv_observed": cases[n]["a_argv"][:8], "a_outcome": cases[n]["a_outcome"],
                       "objdump_ok": cases[n]["b_objdump_ok"], "stream_prefix": cases[n]["a_stream"][:120], "tlc_verdict": verdicts[n]})
    report.assumptions += ["installed binutils 2.40 objdump is the reference for 'what objdump -d -M att prints'",
                           "object contents sampled, not enumerated"]
    return report.finish()


def replay(prop, path):
    from ..common import replay_by_rerun
    return replay_by_rerun(prop, path)
