"""C01-C05, C07, C11, C12: (pattern, listing, flags) universes.

For each property:
  1. design level: TLC model-checks the spec-internal formulation of the property (MC_<id>)
  2. TLC exports the universe (Export_<id>), the real code runs every case in all nine modes,
     TLC validates every observation (Trace_Match)
  3. the witnesses of the known findings of the property are re-executed
"""
import json

from .. import gen, matchpipe, render, tlc
from ..common import Report, load_known_findings, MachineryError, REPO, seed

FF = [(False, False)]
ALL4 = matchpipe.FLAGS
ANY_MACROS = f"{REPO}/tests/macros/jasm_macros.yaml"

# property -> list of (universe key in the export, options)
PLAN = {
    "C01": dict(export="Export_C01", parts=[("m", dict(flags=ALL4, spellings=[{}, {"ints": True}])),   # ints differ only in the thorough universe
                                            ("c", dict(flags=ALL4)), ("n", dict(flags=ALL4, spellings=[{}, {"ints": True}]))],
                mc=[("MC_C01", {"quick": "MC_C01_quick.cfg", "thorough": "MC_C01_thorough.cfg"})]),
    "C02": dict(export="Export_C02", parts=[("m", dict(flags=FF, spellings=[{"times": "body"}, {"times": "sib"}, {"times": "sib", "alias": True},
                                                                            {"times": "body", "alias": True}])),
                                            ("f", dict(flags=[(True, False), (True, True)], spellings=[{"times": "body"}, {"times": "sib"}]))],
                mc=[("MC_Compile", {"quick": "MC_Compile_times_quick.cfg", "thorough": "MC_Compile_times_thorough.cfg"}), ("MC_Compile", {"quick": "MC_Compile_control.cfg", "thorough": "MC_Compile_control.cfg"}, "must_fail"), ("MC_C02", {"quick": "MC_C02_quick.cfg", "thorough": "MC_C02_thorough.cfg"})]),
    "C03": dict(export="Export_C03", parts=[("i", dict(flags=FF)), ("o", dict(flags=[(False, False), (False, True)])),
                                            ("d", dict(flags=ALL4)), ("w", dict(flags=FF))],
                mc=[("MC_Compile", {"quick": "MC_Compile_groups_quick.cfg", "thorough": "MC_Compile_groups_thorough.cfg"}), ("MC_C03", {"quick": "MC_C03_quick.cfg", "thorough": "MC_C03_thorough.cfg"})]),
    "C04": dict(export="Export_C04", parts=[("i", dict(flags=FF)), ("o", dict(flags=[(False, False), (False, True)])),
                                            ("f", dict(flags=ALL4)), ("n", dict(flags=FF))],
                mc=[("MC_Compile", {"quick": "MC_Compile_not_quick.cfg", "thorough": "MC_Compile_not_thorough.cfg"}), ("MC_C04", {"quick": "MC_C04_quick.cfg", "thorough": "MC_C04_thorough.cfg"})]),
    "C05": dict(export="Export_C05", parts=[("i", dict(flags=[(False, False), (True, True)])),
                                            ("o", dict(flags=[(False, False), (True, True)])),
                                            ("r", dict(flags=FF, spellings=[{}, {"upper_suffix": True}])),
                                            ("d", dict(flags=FF, spellings=[{}, {"ints": True}])),
                                            ("g", dict(flags=[(False, False), (False, True)]))],
                mc=[("MC_Compile", {"quick": "MC_Compile_caps_quick.cfg", "thorough": "MC_Compile_caps_thorough.cfg"}), ("MC_Compile", {"quick": "MC_Compile_regs_quick.cfg", "thorough": "MC_Compile_regs_thorough.cfg"}), ("MC_C05", {"quick": "MC_C05_quick.cfg", "thorough": "MC_C05_thorough.cfg"})]),
    "C06": dict(export="Export_C06", parts=[("m", dict(flags=[(False, False), (True, True)], spellings=[{}, {"ints": True}])),
                                            ("s", dict(flags=[(False, False), (True, True)], obs=True))],
                mc=[("MC_Compile", {"quick": "MC_Compile_deref_quick.cfg", "thorough": "MC_Compile_deref_thorough.cfg"}), ("MC_C06", {"quick": "MC_C06_quick.cfg", "thorough": "MC_C06_thorough.cfg"})]),
    "C18": dict(export="Export_C18", parts=[(None, dict(flags=FF))],
                mc=[("MC_C18", {"quick": "MC_C18_quick.cfg", "thorough": "MC_C18_thorough.cfg"})]),
    "C07": dict(export="Export_C07", parts=[("p", dict(flags=[(False, False), (True, True)])),
                                            ("a", dict(flags=[(False, False), (False, True)], macros=[ANY_MACROS])),
                                            ("t", dict(flags=FF)), ("r", dict(flags=FF))],
                mc=[("MC_Scan", {"quick": "MC_Scan.cfg", "thorough": "MC_Scan_thorough.cfg"})]),
    "C11": dict(export="Export_C11", parts=[("m", dict(flags=FF)), ("s", dict(flags=FF)), ("r", dict(flags=FF))],
                mc=[("MC_Scan", {"quick": "MC_Scan.cfg", "thorough": "MC_Scan_thorough.cfg"})]),
    "C12": dict(export="Export_C12", parts=[("m", dict(flags=[(False, False), (True, False)], fresh=True)),
                                            ("n", dict(flags=FF, fresh=True, modes_only=True)),
                                            ("m", dict(flags=FF, fresh="batch", label="batch")),
                                            # the library's logger at DEBUG level (what `jasm --debug` sets)
                                            ("m", dict(flags=FF, fresh=True, debug_level=True, label="debug")),
                                            ("r", dict(flags=FF, fresh=True, label="range"))],
                mc=[("MC_Scan", {"quick": "MC_Scan.cfg", "thorough": "MC_Scan_thorough.cfg"})]),
}

NONTRIVIAL_RULE = ("cases = (pattern, listing, flag setting, spelling) of the TLA+ universe, all executed on the "
                   "real code in 9 modes and validated by TLC; a case is non-trivial if the specification expects "
                   "'found', or expects 'not found' for a listing in which some other pattern of the same "
                   "universe is found; cases are distinct by construction (set-valued universe)")


def run_part(report, prop, key, u, opts, tier):
    flags = opts.get("flags", FF)
    spellings = opts.get("spellings", [{}])
    pats, lsts = u["patterns"], u["listings"]
    rules, job_rules, seen_docs = [], [], set()
    tlc_docs = matchpipe.unparse_by_tlc(pats, report)     # JasmSyntax!Unparse, per pattern and spelling
    ranges = [()] + [tuple(r) for r in u.get("ranges", [])] if "ranges" in u else [()]
    for pi, P in enumerate(pats):
        for (mfm, ofm) in flags:
            for sp in spellings:
                for rng in ranges:
                    extra = {"valid_addr_range": {"min": rng[0], "max": rng[1]}} if rng else None
                    doc = render.rule_doc(P, mfm, ofm, opt=sp, config_extra=extra)
                    skey = "upper" if sp.get("upper_suffix") else "sib" if sp.get("times") == "sib" else "ints" if sp.get("ints") else "body"
                    if doc["pattern"] != tlc_docs[pi][skey]:
                        raise MachineryError(f"render.py and JasmSyntax!Unparse disagree on {P}: "
                                             f"{doc['pattern']} vs {tlc_docs[pi][skey]}")
                    doc["pattern"] = tlc_docs[pi][skey]       # the document the real code reads is TLC's
                    if sp.get("alias"):
                        doc = render.share_equal(doc)         # equal subtrees written once: YAML anchor + alias
                    text = render.dump_yaml(doc)
                    if (pi, text) in seen_docs:
                        continue
                    seen_docs.add((pi, text))
                    rules.append((pi, mfm, ofm, sp, rng))
                    jr = {"id": len(job_rules), "yaml": text}
                    if opts.get("macros"):
                        jr["macro_paths"] = opts["macros"]
                    job_rules.append(jr)
    if "texts" in u:   # listing text printed by TLC (JasmObjdump!LineText)
        job_listings = [{"id": n, "text": "\n".join(t) + "\n"} for n, t in enumerate(u["texts"])]
    else:
        job_listings = [{"id": n, "text": render.listing_text(L)} for n, L in enumerate(lsts)]
    # the cross product is run completely unless it exceeds the tier's budget; then every rule is run on a
    # seeded sample of the listings (the evidence says so and `exhaustive` is not claimed)
    budget = opts.get("max_cases", 400000 if tier == "quick" else 1000000)
    pairs = "all"
    if len(job_rules) * len(job_listings) > budget:
        import random
        rnd = random.Random(seed() + 1000003 * len(job_rules))
        per_rule = max(1, budget // len(job_rules))
        pairs = [[ri, li] for ri in range(len(job_rules)) for li in rnd.sample(range(len(job_listings)), min(per_rule, len(job_listings)))]
        report.notes.append(f"part {key or 'main'}: {len(pairs)} of {len(job_rules) * len(job_listings)} cases sampled (seed {seed()})")
        report.cov["sampled"] = True
    obs = matchpipe.drive({"rules": job_rules, "listings": job_listings, "pairs": pairs, "want_regex": True,
                           "fresh": opts.get("fresh", False), "debug_level": opts.get("debug_level", False)}, tag=f"{prop}{key or ''}{opts.get('label', '')}")
    # binding of the compile-scheme model (JasmCompile): does the real compiler emit the text the model predicts?
    # (never a violation: a harmless refactoring of the emitted text only shows up here as drift)
    seen_rule, same, drift = set(), 0, []
    for o in obs:
        if o["r"] in seen_rule or "regex" not in o:
            continue
        seen_rule.add(o["r"])
        pi, mfm, ofm, sp, rng = rules[o["r"]]
        if opts.get("macros"):
            continue
        want = tlc_docs[pi]["rx"][("t" if mfm else "f") + ("t" if ofm else "f")]
        if want == o["regex"]:
            same += 1
        elif len(drift) < 3:
            drift.append({"rule": job_rules[o["r"]]["yaml"], "model": want, "code": o["regex"]})
    cm = report.cov.setdefault("compile_model", {"rules_compared": 0, "same_text": 0, "drift_samples": []})
    cm["rules_compared"] += len([r for r in seen_rule]) if not opts.get("macros") else 0
    cm["same_text"] += same
    cm["drift_samples"] = (cm["drift_samples"] + drift)[:3]
    if opts.get("modes_only"):
        # raw results only: no pattern semantics involved (nullable patterns, repeated addresses)
        cases = [{"p": rules[o["r"]][0] + 1, "l": o["l"] + 1, "mfm": False, "ofm": False, "outcome": o["outcome"],
                  "all": o.get("res", {}).get("LAT", []), "all_raw": o.get("res", {}).get("LAT", []),
                  "first_raw": o.get("res", {}).get("LFT", []), "all_addr": o.get("res", {}).get("LAA", []),
                  "first_addr": o.get("res", {}).get("LFA", []),
                  "bools": [o.get("res", {}).get(k, False) for k in ("BAT", "BFT", "BAA", "BFA")]} for o in obs]
        verdicts = matchpipe.validate(pats, lsts, cases, report, f"{prop}{key or ''}", module="Trace_Modes")
    else:
        cases = [matchpipe.case_of(o, rules[o["r"]][0] + 1, o["l"] + 1, rules[o["r"]][1], rules[o["r"]][2],
                                   rules[o["r"]][4]) for o in obs]
        if opts.get("rand"):
            for c in cases:
                c["rand"] = True
        if opts.get("obs"):            # judged on the operand text of the observed stream (see Trace_Match, c.obs)
            for c in cases:
                c["obs"] = True
        if opts.get("nostream"):       # listings of thousands of instructions: the stream is validated by C08/C10
            for c in cases:
                c["nostream"] = True
        verdicts = matchpipe.validate(pats, lsts, cases, report, f"{prop}{key or ''}")
    report.cov["evaluations"] += len(cases)
    report.cov["traces_validated_against_impl"] += len(cases)
    # non-trivial count
    found_listing = set()
    for c, v in zip(cases, verdicts):
        if v == "ok:F" or (v.startswith("rej") and c["all"]):
            found_listing.add(c["l"])
    nt = sum(1 for c, v in zip(cases, verdicts) if v == "ok:F" or (v == "ok:N" and c["l"] in found_listing))
    report.cov["distinct_nontrivial"] += nt
    part_stats = {"part": key or "main", "patterns": len(pats), "listings": len(lsts), "rules": len(rules),
                  "cases": len(cases), "expected_found": sum(v == "ok:F" for v in verdicts),
                  "rejected": sum(v.startswith("rej") for v in verdicts),
                  "skipped_out_of_scope": sum(v.startswith("skip") for v in verdicts)}
    report.cov.setdefault("parts", []).append(part_stats)
    # samples
    for c, v, o in list(zip(cases, verdicts, obs))[:: max(1, len(cases) // 3)][:3]:
        report.sample({"rule_yaml": job_rules[o["r"]]["yaml"], "listing": lsts[c["l"] - 1],
                       "flags": {"mfm": c["mfm"], "ofm": c["ofm"]}, "observed_all_matches": o.get("res", {}).get("LAT"),
                       "observed_stream": o.get("stream"), "tlc_verdict": v})
    # rejections
    n_rej = 0
    known_tags = {f["tag"]: f for f in load_known_findings()
                  if f["status"] == "known" and f["property"] == prop and f.get("tag")}
    for c, v, o in zip(cases, verdicts, obs):
        if v.startswith("rej"):
            tags = v.split("|")[1:]
            hit = [t for t in tags if t in known_tags]
            if hit:
                f = known_tags[hit[0]]
                report.known_finding(f["id"], f["what"])
                report.cov["known_finding_cases"] = report.cov.get("known_finding_cases", 0) + 1
                continue
            n_rej += 1
            if n_rej <= 50:
                report.violation(v[4:], {"kind": "match", "pattern": pats[c["p"] - 1], "listing": lsts[c["l"] - 1],
                                         "mfm": c["mfm"], "ofm": c["ofm"], "spelling": rules[o["r"]][3],
                                         "range": list(rules[o["r"]][4]), "obs": c.get("obs", False), "nostream": c.get("nostream", False), "rand": c.get("rand", False),
                                         "fresh": opts.get("fresh", False), "debug_level": opts.get("debug_level", False),
                                         "macros": opts.get("macros"), "rule_yaml": job_rules[o["r"]]["yaml"],
                                         "listing_text": job_listings[o["l"]]["text"], "observed": o})
    if n_rej > 50:
        report.notes.append(f"{n_rej} rejected cases in part {key}; first 50 written as replays")
    return n_rej


def run_witnesses(report, prop):
    """Re-execute the witnesses of the findings listed for this property."""
    for f in load_known_findings():
        if f["property"] != prop or f.get("witness", {}).get("kind") != "match":
            continue
        w = f["witness"]
        v, o = check_single(report, w, f"{prop}-w{f['id']}")
        still = v.startswith("rej")
        if f["status"] == "known":
            if still:
                report.known_finding(f["id"], f"{f['what']} [witness rejected by TLC: {v}]")
            else:
                report.notes.append(f"known finding {f['id']} no longer reproduces on its witness ({v})")
        elif f["status"] == "fixed" and still:
            report.violation(f"fixed finding {f['id']} is back: {v}", {**w, "observed": o})


def check_single(report, w, name):
    """One (rule, listing) case re-executed and re-validated.  A replay file of a violation carries the exact rule text
    and listing text that were run (and the range / judgement mode); a known-finding witness only the abstract values."""
    P, L = w["pattern"], w["listing"]
    if w.get("rule_yaml"):
        text = w["rule_yaml"]
    else:
        doc = render.rule_doc(P, w.get("mfm", False), w.get("ofm", False), opt=w.get("spelling") or {})
        if (w.get("spelling") or {}).get("alias"):
            doc = render.share_equal(doc)
        text = render.dump_yaml(doc)
    jr = {"id": 0, "yaml": text}
    if w.get("macros"):
        jr["macro_paths"] = w["macros"]
    obs = matchpipe.drive({"rules": [jr], "listings": [{"id": 0, "text": w.get("listing_text") or render.listing_text(L)}],
                           "pairs": "all", "fresh": w.get("fresh", False), "debug_level": w.get("debug_level", False)}, tag=name)
    c = matchpipe.case_of(obs[0], 1, 1, w.get("mfm", False), w.get("ofm", False), tuple(w.get("range") or ()))
    for flag in ("obs", "nostream", "rand"):
        c[flag] = bool(w.get(flag, False))
    v = matchpipe.validate([P], [L], [c], report, name)[0]
    report.cov["evaluations"] += 1
    report.cov["traces_validated_against_impl"] += 1
    return v, obs[0]


def run(prop, tier):
    plan = PLAN[prop]
    report = Report(prop, tier)
    report.cov["rule"] = NONTRIVIAL_RULE
    report.assumptions += [
        "TLC 1.8 evaluates the TLA+ reference semantics correctly",
        "harness/render.py prints abstract patterns/listings faithfully (YAML round trip checked on every rule)",
        "bounded universe: see spec/U_%s.tla and the Export_%s_%s.cfg constants" % (prop, prop, tier),
    ]
    for entry in plan.get("mc", []):
        mod, cfgs = entry[0], entry[1]
        must_fail = len(entry) > 2
        st = tlc.run(mod, cfg=cfgs[tier], coverage=False)
        report.add_tlc(st, f"design-level {mod} {cfgs[tier]}" + (" (control, must fail)" if must_fail else ""))
        if must_fail and not st["violated"]:
            raise MachineryError(f"non-vacuity control {mod} {cfgs[tier]} did not fail")
        if st["violated"] and not must_fail:
            raise MachineryError(f"design-level model check {mod} failed: {st['violated']} -- the specification "
                                 f"is inconsistent, no verdict about the code\n" + st["stdout"][-3000:])
        tlc.cleanup(st)
    U = matchpipe.export_universe(plan["export"], f"{plan['export']}_{tier}.cfg", report)
    for key, opts in plan["parts"]:
        u = U if key is None else U[key]
        run_part(report, prop, key, u, opts, tier)
    if prop in ("C01", "C11", "C12"):
        # long listings with occurrences across the powers of two of the instruction count (spec/U_Scale.tla)
        US = matchpipe.export_universe("Export_Scale", f"Export_Scale_{tier}.cfg", report)
        run_part(report, prop, "scale", US["a" if prop == "C01" else "b"], dict(flags=FF, nostream=True, no_unparse_check=True), tier)
    if prop in gen.FEATURES:
        # code -> spec: seeded random patterns / listings, larger and deeper than the exhaustive universes
        n_p, n_l = (150, 40) if tier == "quick" else (2500, 200)
        u = gen.universe(prop, seed() * 9973 + 11, n_p, n_l)
        run_part(report, prop, "rand", u, dict(flags=FF, rand=True), tier)
    if prop == "C07":
        repo_traces(report)
    if prop == "C18":
        c18_real_objdump(report, tier)
    run_witnesses(report, prop)
    report.cov["exhaustive"] = not report.cov.get("sampled", False)
    return report.finish()


def c18_real_objdump(report, tier):
    """code -> spec: real objdump text (templates with direct/indirect branches, random bytes) parsed without and with a
    range; TLC validates that the second stream is an allowed tagging of the first."""
    import random
    from .. import objdump, parsepipe
    from ..common import seed
    rnd = random.Random(seed() * 17 + 5)
    n_ins, n_blob = (1500, 9000) if tier == "quick" else (20000, 150000)
    texts = [objdump.objdump_text(objdump.assemble(objdump.template_source(rnd, n_ins), "c18t")),
             objdump.objdump_text(objdump.assemble(objdump.random_blob_source(rnd, n_blob), "c18b"))]
    chunks = [ch for t in texts for ch in objdump.chunks(t.split("\n"), 40)]
    ranges = [("0x0", "0x400"), ("100", "0x7ff"), ("0x0", "0xffffffffffffffff"), ("0x2000", "0x2000")]
    flat = ["\n".join(ch) + "\n" for ch in chunks]
    base = parsepipe.parse_texts(flat, "c18b0")
    cases = []
    for lo, hi in ranges:
        rule = f"config:\n  valid_addr_range:\n    min: '{lo}'\n    max: '{hi}'\npattern:\n- zzzzzz\n"
        obs = parsepipe.parse_texts(flat, "c18b1", rule=rule)
        cases += [parsepipe.case("range", ch, [], o0, (), o1, (lo, hi)) for ch, o0, o1 in zip(chunks, base, obs)]
    verdicts = parsepipe.validate(cases, report, "c18b")
    for c, v in zip(cases, verdicts):
        if v.startswith("rej") and len(report.violations) < 50:
            report.violation(v[4:] + " (real objdump text)", {"kind": "parse", "mode": "range", "lines": c["lines"],
                                                             "range": c["range"], "stream": c["stream"], "stream2": c["stream2"]})
    report.cov["evaluations"] += len(cases)
    report.cov["traces_validated_against_impl"] += len(cases)
    report.cov["distinct_nontrivial"] += sum(v == "ok:tagged" for v in verdicts)
    report.cov.setdefault("parts", []).append({"part": "real objdump chunks x ranges", "cases": len(cases),
                                               "tagged": sum(v == "ok:tagged" for v in verdicts),
                                               "skipped": sum(v.startswith("skip") for v in verdicts),
                                               "rejected": sum(v.startswith("rej") for v in verdicts),
                  "skipped_out_of_scope": sum(v.startswith("skip") for v in verdicts)})


def replay(prop, path):
    with open(path) as f:
        rep = json.load(f)
    report = Report(prop, "quick")
    v, o = check_single(report, rep["case"], f"{prop}-replay")
    print(f"replay verdict: {v}")
    print(json.dumps(o, indent=1)[:3000])
    if v.startswith("rej"):
        return 1
    if rep["case"].get("macros") or rep.get("tier") == "thorough":
        return 0
    # cases observed under a variation the single re-execution does not reproduce (batch construction ...): run the
    # check again and look for the same case
    from ..common import replay_by_rerun
    return replay_by_rerun(prop, path)


def repo_traces(report):
    """code -> spec: the executions the repository's own tests trigger (tests/configuration.yaml), validated by TLC
    against every clause, not only the one boolean the test asserts (Trace_Repo)."""
    from .. import repotraces
    meta, cases, verdicts, obs = repotraces.run(report)
    for m, c, v, o in zip(meta, cases, verdicts, obs):
        if v is None:
            raise MachineryError(f"Trace_Repo gave no verdict for {m['title']}")
        if v.startswith("rej"):
            report.violation(f"{v[4:]} on the repository test '{m['title']}'",
                             {"kind": "repo", "title": m["title"], "observed": {k: o.get(k) for k in ("outcome", "res", "exc")}})
    report.cov["evaluations"] += len(cases)
    report.cov["traces_validated_against_impl"] += len(cases)
    report.cov["distinct_nontrivial"] += sum(1 for v in verdicts if v in ("ok:F", "ok:N"))
    report.cov.setdefault("parts", []).append({
        "part": "repository test inputs (tests/configuration.yaml)", "cases": len(cases),
        "fully_judged_by_the_semantics": sum(1 for v in verdicts if v in ("ok:F", "ok:N")),
        "outside_literal_name_scope": sum(1 for v in verdicts if v.startswith("ok:unjudged")),
        "rejected": sum(1 for v in verdicts if v.startswith("rej"))})
