"""C14: results depend only on the current inputs, never on earlier runs in the process.

  1. MC_C14: TLC model-checks JasmSession (global configuration written by Construct, read by Match) with
     Atomic = TRUE (invariants C14_OwnConfig, C14_Inductive) and, as a non-vacuity control, finds the
     counterexample with Atomic = FALSE
  2. every history of complete operations up to MaxOps (TLC's reachable states) is replayed in ONE real process;
     after each operation the configuration snapshot and the results of all modes are logged
  3. the same operation is performed first in a fresh process (the property's own oracle)
  4. TLC validates every history trace against JasmSession (Trace_Session)
"""
import itertools
import json
import os

from .. import matchpipe, objdump, render, tlc
from ..common import Report, MachineryError, scratch

BIN_B_SRC_NOTE = "the second object (same size, other registers / targets) is derived from BIN_SRC by replace()"
BIN_SRC = """\t.text
f:
\tpush %rbx
\tcall g
\tpop %rbx
\tret
g:
\tcall f
\tret
\t.section .foo,"ax",@progbits
h:
\tnop
\tnop
\tret
"""


XLIB = "macros:\n- name: '@lib'\n  pattern:\n  - $and:\n    - '@inner'\n    - call\n"
XLIB_RULES = {
    "xlib_a": ("macros:\n- name: '@inner'\n  pattern:\n  - push\npattern:\n- '@lib'\n", [XLIB]),
    "xlib_b": ("macros:\n- name: '@inner'\n  pattern:\n  - pop\npattern:\n- '@lib'\n", [XLIB]),
}


RAW_RULES = {
    "hexint": ("pattern:\n- call:\n  - 0x8\n", []),     # an unquoted hexadecimal scalar (YAML: the integer 8)
    # the same register-capture spelling as capture group 1 and as capture group 2
    "regcapA": ("pattern:\n- mov:\n  - '%rbx'\n  - '&genreg.64'\n- xor:\n  - '&genreg.32'\n  - '&genreg.32'\n", []),
    "regcapB": ("pattern:\n- mov:\n  - '&src'\n  - '&genreg.64'\n- xor:\n  - '&genreg.32'\n  - '&genreg.32'\n", []),
    # one parameterised macro name, two bodies, textually identical call sites
    "pmacroA": ("macros:\n- name: '@zr'\n  args:\n  - reg\n  pattern:\n  - xor:\n    - reg\n    - reg\npattern:\n- '@zr':\n  reg: '%eax'\n", []),
    "pmacroB": ("macros:\n- name: '@zr'\n  args:\n  - reg\n  pattern:\n  - mov:\n    - '%rbx'\n    - reg\npattern:\n- '@zr':\n  reg: '%eax'\n", []),
}


def rule_yaml(r):
    if r["id"] in XLIB_RULES:
        return XLIB_RULES[r["id"]]
    if r["id"] in RAW_RULES:
        return RAW_RULES[r["id"]]
    cfg = {}
    c = r["cfg"]
    if c["mfm"] != "-":
        cfg["mnemonics-full-match"] = c["mfm"] == "T"
    if c["ofm"] != "-":
        cfg["operands-full-match"] = c["ofm"] == "T"
    if c["style"] != "-":
        cfg["style"] = c["style"]
    if c["range"]:
        cfg["valid_addr_range"] = {"min": c["range"][0], "max": c["range"][1]}
    if c["sections"]:
        cfg["sections"] = list(c["sections"])
    macros = [{"name": m[0], "pattern": m[1]} for m in r["macros"]] or None
    doc = render.rule_doc(r["pattern"], config_extra=cfg or None, macros=macros)
    xm = [render.dump_yaml({"macros": [{"name": m[0], "pattern": m[1]} for m in f]}) for f in r["xmacros"]]
    return render.dump_yaml(doc), xm


def apalache(report):
    import shutil
    import subprocess
    import time
    from ..common import SPEC
    out = os.path.join(scratch(), "apalache")
    steps = [("Init => IndInv", ["--init=Init", "--inv=IndInv", "--length=0"]),
             ("IndInv /\\ Next => IndInv'", ["--init=IndInit", "--inv=IndInv", "--length=1"]),
             ("IndInv => C14", ["--init=IndInit", "--inv=C14", "--length=0"])]
    res = []
    for name, args in steps:
        t0 = time.time()
        try:
            p = subprocess.run(["apalache-mc", "check", *args, f"--out-dir={out}", "Apa_C14.tla"], cwd=SPEC,
                               capture_output=True, text=True, timeout=600)
        except (OSError, subprocess.TimeoutExpired) as exc:
            res.append({"obligation": name, "result": f"not run: {exc}"})
            continue
        ok = "EXITCODE: OK" in p.stdout
        if not ok and "The outcome is: Error" in p.stdout:
            raise MachineryError(f"Apalache refutes `{name}`: the specification of C14 is inconsistent\n{p.stdout[-1500:]}")
        res.append({"obligation": name, "result": "discharged" if ok else "tool error", "wall_s": round(time.time() - t0, 1)})
    shutil.rmtree(out, ignore_errors=True)
    report.cov["apalache_inductive_invariant"] = res


def run(prop, tier):
    report = Report(prop, tier)
    max_ops = 2 if tier == "quick" else 3
    # 1. design level (both tiers explore histories of up to 3 operations; the quick tier replays those of up to 2
    #    and, of the 3-operation ones, the "return" histories A B A -- a rule used again after another one)
    st = tlc.run("MC_C14", cfg="MC_C14_thorough.cfg", dump=True)
    report.add_tlc(st, f"MC_C14 {tier}")
    if st["violated"]:
        raise MachineryError(f"MC_C14 violated: {st['violated']}")
    hists = set()
    for s in tlc.read_dump(st["dump"]):
        h = s["hist"]
        if h and len(h) % 2 == 0 and not s["pending"].get("__set__"):
            hh = tuple(e[1] for e in h[::2])
            if len(hh) <= max_ops or (len(hh) == 3 and hh[0] == hh[2] and hh[0] != hh[1]):
                hists.add(hh)
    tlc.cleanup(st)
    ctl = tlc.run("MC_C14", cfg="MC_C14_control.cfg")
    report.add_tlc(ctl, "MC_C14 control (Atomic = FALSE must fail)")
    if not ctl["violated"]:
        raise MachineryError("non-vacuity control MC_C14_control did not fail")
    tlc.cleanup(ctl)
    # 1b. unbounded histories: the inductive core of C14 discharged symbolically by Apalache (extra evidence;
    #     the claim of this check rests on TLC + trace validation)
    apalache(report)
    # 2. universe
    out = os.path.join(scratch(), "u14.json")
    ex = tlc.run("Export_C14", cfg="Export_C14.cfg", env={"JASM_OUT": out}, workers=1)
    tlc.cleanup(ex)
    with open(out) as f:
        U = json.load(f)
    rules = {r["id"]: r for r in U["rules"]}
    obj = objdump.assemble(BIN_SRC, "c14bin")
    # a second object of the same size; "binA"/"binB" are copied onto ONE path before the operation, so a
    # history can replace the input file between two operations (same path, same size, other content)
    obj_b = objdump.assemble(BIN_SRC.replace("%rbx", "%rbp").replace("call g", "call f").replace("\tnop\n\tnop\n", "\tnop\n\tcld\n"), "c14binb")
    if os.path.getsize(obj) != os.path.getsize(obj_b):
        raise MachineryError("the two C14 objects differ in size")
    # the same for the text listing: "textA"/"textB" (same size, other registers) share one path and one timestamp
    text_a = render.listing_text(U["listing"])
    text_b = text_a.replace("%rbx", "%rbp").replace("%rax", "%rdx")
    if text_a == text_b or len(text_a) != len(text_b):
        raise MachineryError("the two C14 text listings must differ and have the same size")
    tpaths = []
    for nm, t in (("a", text_a), ("b", text_b)):
        tp = os.path.join(scratch(), f"c14.text{nm}.s")
        with open(tp, "w", encoding="utf-8") as f:
            f.write(t)
        tpaths.append(tp)
    listings = [{"id": 0, "text": text_a}, {"id": 1, "copy_from": obj, "binary": True},
                {"id": 2, "copy_from": obj_b, "binary": True}, {"id": 3, "copy_from": tpaths[0]}, {"id": 4, "copy_from": tpaths[1]}]
    LI = {"text": 0, "bin": 1, "binB": 2, "textA": 3, "textB": 4}
    job_rules, rid = [], {}
    for r in U["rules"]:
        y, xm = rule_yaml(r)
        rid[r["id"]] = len(job_rules)
        job_rules.append({"id": r["id"], "yaml": y, "macros": xm})
    # operations: (rule, input); histories: TLC's rule sequences x an input assignment (text; one bin variant)
    histories, hist_keys = [], []
    for h in sorted(hists):
        variants = [tuple("text" for _ in h)]
        if len(h) >= 2:
            variants.append(tuple("textA" if n % 2 == 0 else "textB" for n, _ in enumerate(h)))
        if any("bin" in rules[r]["inputs"] for r in h):
            variants.append(tuple("bin" if "bin" in rules[r]["inputs"] else "text" for r in h))
            # the file at the input path is replaced between operations (A, B, A, ...)
            variants.append(tuple(("bin" if n % 2 == 0 else "binB") if "bin" in rules[r]["inputs"] else "text"
                                  for n, r in enumerate(h)))
        for v in dict.fromkeys(variants):
            histories.append([[rid[r], LI[i]] for r, i in zip(h, v)])
            hist_keys.append(list(zip(h, v)))
    obs = matchpipe.drive({"rules": job_rules, "listings": listings, "histories": histories, "repeat": True}, tag="c14h")
    # 3. fresh-process oracle: each operation alone
    ops = sorted({(r, i) for hk in hist_keys for (r, i) in hk})
    fresh_obs = matchpipe.drive({"rules": job_rules, "listings": listings,
                                 "histories": [[[rid[r], LI[i]]] for (r, i) in ops]}, tag="c14f")
    fresh = {op: fo["events"][0] for op, fo in zip(ops, fresh_obs)}
    for op, e in fresh.items():
        if e["outcome"] != "ok":
            if "stream" not in e:
                # the very first step of a valid operation fails: the universe (or the harness) is wrong
                raise MachineryError(f"operation {op} fails in a fresh process: {e.get('exc')}")
            # the stream was produced and a LATER mode of the same operation, in the same fresh process, failed:
            # repeating an operation does not give the same result
            report.violation(f"C14_RepeatedOperationFails: {op[0]} on {op[1]} in a fresh process ({e.get('exc')})",
                             {"kind": "history", "history": [list(op)], "event": e,
                              "rules": {op[0]: job_rules[rid[op[0]]]["yaml"]}})

    def digest(e):
        return {"stream": e.get("stream", ""), "res": e.get("res", {})}

    traces = []
    for hk, ho in zip(hist_keys, obs):
        tr = []
        for (r, i), e in zip(hk, ho["events"]):
            g = e.get("g") or {"mfm": "None", "ofm": "None", "style": "None", "range": [], "sections": []}
            first = {"stream": e.get("stream", ""), "LAT": e.get("res", {}).get("LAT")}
            tr.append({"rule": r, "input": i, "outcome": e["outcome"], "g": g,
                       # the same MasterOfPuppets object asked a second time (stream, all matches)
                       "res1": json.dumps(first, sort_keys=True), "res2": json.dumps(e.get("again", first), sort_keys=True),
                       "res": json.dumps(digest(e), sort_keys=True),
                       "fresh": json.dumps(digest(fresh[(r, i)]), sort_keys=True)})
        traces.append(tr)
    path = os.path.join(scratch(), "c14.traces.json")
    with open(path, "w") as f:
        json.dump({"traces": traces}, f)
    tv = tlc.run("Trace_Session", env={"JASM_CASES": path}, dump=True, heap="16g")
    report.add_tlc(tv, "Trace_Session")
    if tv["violated"]:
        raise MachineryError(f"Trace_Session invariant violated: {tv['violated']}\n{tv['stdout'][-2000:]}")
    verdicts = {}
    for s in tlc.read_dump(tv["dump"]):
        if s["verdict"] != "run":
            verdicts[s["tid"]] = (s["verdict"], s["l"])
    tlc.cleanup(tv)
    os.unlink(path)
    if len(verdicts) != len(traces):
        raise MachineryError(f"Trace_Session: {len(traces) - len(verdicts)} traces without verdict")
    for n, tr in enumerate(traces):
        v, l = verdicts[n + 1]
        if v != "ok" and len(report.violations) < 50:
            report.violation(f"{v[4:]} at operation {l}", {"kind": "history", "history": hist_keys[n],
                                                          "event": tr[l - 1] if l <= len(tr) else None,
                                                          "rules": {r: job_rules[rid[r]]["yaml"] for r, _ in hist_keys[n]}})
    report.cov["evaluations"] = sum(len(t) for t in traces)
    report.cov["traces_validated_against_impl"] = len(traces)
    report.cov["distinct_nontrivial"] = sum(1 for hk in hist_keys if len(hk) >= 2 and len({r for r, _ in hk}) >= 2)
    report.cov["rule"] = ("histories = every sequence of <= MaxOps complete operations (quick: <= 2, plus every A B A) over the rule documents of "
                          "spec/MC_C14.tla (TLC's reachable states), each replayed in one real process, plus a variant on a "
                          "binary input; non-trivial = at least two operations with different rules")
    report.cov["exhaustive"] = True
    report.cov["histories"] = len(traces)
    report.cov["max_ops"] = max_ops
    for n in (0, len(traces) // 2, len(traces) - 1):
        report.sample({"history": hist_keys[n], "g_after_each_construct": [e["g"] for e in traces[n]], "tlc_verdict": verdicts[n + 1][0]})
    report.assumptions += ["the fresh-process oracle is the same operation run as the only operation of a forked process that has "
                           "imported nothing of jasm before", "bounded: histories of <= MaxOps operations over the rule documents of spec/MC_C14.tla"]
    return report.finish()


def replay(prop, path):
    from ..common import replay_by_rerun
    return replay_by_rerun(prop, path)
