"""Property id -> module implementing run(prop, tier) / replay(prop, path)."""
ALL = {
    "C01": "matchprops", "C02": "matchprops", "C03": "matchprops", "C04": "matchprops",
    "C16": "c16", "C14": "c14", "C17": "c17", "C15": "c15", "C13": "macroprops", "C19": "macroprops", "C20": "c20",
    "C08": "parseprops", "C09": "parseprops", "C10": "parseprops",
    "C05": "matchprops", "C06": "matchprops", "C18": "matchprops", "C07": "matchprops", "C11": "matchprops", "C12": "matchprops",
}
