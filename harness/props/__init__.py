"""Property id -> module implementing run(prop, tier) / replay(prop, path)."""
ALL = {
    "C01": "matchprops",
}
