"""C13 (macro expansion == manual inlining) and C19 (every @macro expanded or reported).

The universes (spec/U_C13.tla, spec/U_C19.tla) are rule documents as Doc trees; TLC computes for each the manually
inlined document (InlineRef) and, for C19, whether compilation must fail and which names the error must mention.  The
real code compiles the macro document (macro definitions split between the rule file and extra macro files) and the
inlined document; TLC validates the outcomes (Trace_Macro).  Where the two compiled matchers differ textually they are
compared behaviourally on a listing universe.
"""
import itertools
import json
import os

import yaml

from .. import matchpipe, render, tlc
from ..common import Report, MachineryError, load_known_findings, scratch

TINY = "   0:\t90                   \tnop\n"


def native(d):
    t = d["t"]
    if t == "str":
        return d["s"]
    if t == "int":
        return d["i"]
    if t == "null":
        return None
    if t == "list":
        return [native(x) for x in d["items"]]
    if t == "map":
        return {p["s"]: native(p["items"][0]) for p in d["items"]}
    raise MachineryError(f"unknown Doc node {t}")


def macro_native(m):
    out = {"name": m["name"]}
    if m["args"]:
        out["args"] = list(m["args"])
    out["pattern"] = native(m["body"])
    return out


def dump(doc):
    text = yaml.safe_dump(doc, sort_keys=False, default_flow_style=False, width=1000)
    if yaml.safe_load(text) != doc:
        raise MachineryError("YAML round trip failed")
    return text


def rules_of(d):
    """(macro rule, inlined rule) job entries of one universe document."""
    doc = {}
    if d["macros"]:
        doc["macros"] = [macro_native(m) for m in d["macros"]]
    doc["pattern"] = native(d["pattern"])
    xfiles = [dump({"macros": [macro_native(m) for m in f]}) for f in d["xfiles"]]
    mac = {"yaml": dump(doc), "macros": xfiles}
    inl = {"yaml": dump({"pattern": native(d["inlined"])})}
    return mac, inl


BEHAV_BODIES = [("push", ["%rax"]), ("push", ["%rbx"]), ("call", ["10"]), ("jmp", ["10"]), ("mov", ["%rax", "%raxx"]),
                ("movq", ["%rax", "%rbx"]), ("mov", ["0", "eax"]), ("mov", ["eax", "ebx"]), ("mov", ["ebx", "eax"]),
                ("xor", ["eax", "eax"]), ("xor", ["ebx", "ebx"]), ("leave", []), ("ret", []), ("mov", ["[%rax]"]), ("nop", [])]


def behaviour_listings(maxlen):
    out = []
    for n in range(0, maxlen + 1):
        for combo in itertools.product(BEHAV_BODIES, repeat=n):
            out.append([{"addr": format(0x10 + 4 * k, "x"), "mn": m, "ops": list(o)} for k, (m, o) in enumerate(combo)])
    return out


def compare_behaviour(pairs, tier, witnesses=()):
    """pairs: list of (macro rule, inlined rule); returns 'same'/'different' per pair.

    The listing universe holds, besides all short sequences over a fixed instruction set, the witness listings TLC
    derived from the inlined rules (JasmSyntax!Witness), so that every reference rule is found on some listing."""
    if not pairs:
        return []
    lsts = behaviour_listings(2 if tier == "quick" else 3)
    seen = set()
    for w in witnesses:
        key = json.dumps(w)
        if w and key not in seen:
            seen.add(key)
            lsts.append(w)
    rules = []
    for mac, inl in pairs:
        rules.append(dict(mac, id=len(rules)))
        rules.append(dict(inl, id=len(rules)))
    obs = matchpipe.drive({"rules": rules, "listings": [{"id": n, "text": render.listing_text(L)} for n, L in enumerate(lsts)],
                           "pairs": "all"}, tag="behav")
    by = {(o["r"], o["l"]): (o["outcome"], json.dumps(o.get("res", {}), sort_keys=True)) for o in obs}
    out = []
    for k in range(len(pairs)):
        same = all(by[(2 * k, l)] == by[(2 * k + 1, l)] for l in range(len(lsts)))
        out.append("same" if same else "different")
    return out


def compile_all(docs, tag):
    rules = []
    for d in docs:
        mac, inl = rules_of(d)
        rules.append(dict(mac, id=len(rules)))
        rules.append(dict(inl, id=len(rules)))
    obs = matchpipe.drive({"rules": rules, "listings": [{"id": 0, "text": TINY}], "pairs": "all", "stream_only": True,
                           "want_regex": True}, tag=tag)
    by = {o["r"]: o for o in obs}
    return [(by[2 * k], by[2 * k + 1], rules[2 * k], rules[2 * k + 1]) for k in range(len(docs))]


def validate(cases, report, name):
    path = os.path.join(scratch(), f"{name}.json")
    with open(path, "w") as f:
        json.dump({"cases": cases}, f)
    tv = tlc.run("Trace_Macro", env={"JASM_CASES": path}, dump=True)
    report.add_tlc(tv, f"Trace_Macro {name}")
    verdicts = [None] * len(cases)
    for s in tlc.read_dump(tv["dump"]):
        if s["verdict"] != "?":
            verdicts[s["idx"] - 1] = s["verdict"]
    tlc.cleanup(tv)
    os.unlink(path)
    return verdicts


def pipeline_traces(report, tier):
    """Binding of the composed pipeline model (spec/Jasm.tla): every (rule document, listing) of MC_Jasm's universe is
    run as ONE real operation whose stage events (harness/stagetrace.py) TLC explains step by step with the actions
    of Jasm.tla (Trace_Jasm).  Drift of these implementation-shaped models is reported, never alarmed."""
    cases, universe = [], 0
    for u in (1, 2):
        rules, listings = stage_universe(u)
        # universe 1 (macro documents), quick: every document on a fixed eighth of the listings (offset by the
        # document index); thorough: all pairs.  Universe 2 (feature documents): all pairs in both tiers
        stride = 8 if tier == "quick" and u == 1 else 1
        pairs = [[ri, li] for ri in range(len(rules)) for li in range(len(listings)) if (li + ri) % stride == 0]
        universe += len(rules) * len(listings)
        obs = matchpipe.drive({"rules": rules, "listings": listings, "pairs": pairs, "stages": True}, tag=f"stages{u}")
        gone = [o for o in obs if o["outcome"] == "unavailable"]
        if gone:
            report.cov["pipeline_model"] = {"traces": 0, "drift": f"stage boundaries not found in the code: {gone[0]['why']}"}
            report.notes.append("pipeline model (Jasm.tla): the stage boundaries the tracer wraps do not exist any more -- drift, not a violation")
            return
        cases += [{"u": u, "d": o["r"] + 1, "l": o["l"] + 1, "events": o["events"]} for o in obs]
    final = validate_stage_traces(cases, report)
    summarize_pipeline(report, cases, final, universe)


def stage_universe(u=1):
    """Rule documents and listings of MC_Jasm's universes (exported by TLC), as worker job entries."""
    out = os.path.join(scratch(), "ujasm.json")
    ex = tlc.run("Export_Jasm", cfg="Export_Jasm.cfg", env={"JASM_OUT": out}, workers=1)
    tlc.cleanup(ex)
    with open(out) as f:
        U = json.load(f)
    os.unlink(out)
    rules = []
    for d in U["docs" if u == 1 else "docs2"]:
        doc = {}
        cfg = {}
        if d["cfgmfm"] != "-":
            cfg["mnemonics-full-match"] = d["cfgmfm"] == "T"
        if d["cfgofm"] != "-":
            cfg["operands-full-match"] = d["cfgofm"] == "T"
        if cfg:
            doc["config"] = cfg
        if d["macros"]:
            doc["macros"] = [macro_native(m) for m in d["macros"]]
        doc["pattern"] = native(d["pattern"])
        rules.append({"id": len(rules), "yaml": dump(doc)})
    listings = [{"id": n, "text": "\n".join(t) + "\n"} for n, t in enumerate(U["texts" if u == 1 else "texts2"])]
    return rules, listings


def validate_stage_traces(cases, report, name="Trace_Jasm"):
    path = os.path.join(scratch(), "jasm.traces.json")
    with open(path, "w") as f:
        json.dump({"cases": cases}, f)
    tv = tlc.run("Trace_Jasm", cfg="Trace_Jasm.cfg", env={"JASM_CASES": path}, dump=True, heap="16g")
    report.add_tlc(tv, name)
    final = {}
    for st in tlc.read_dump(tv["dump"], skip='/\\ verdict = "run"'):
        if st["verdict"] != "run":
            final[st["tid"]] = (st["verdict"], st["l"])
    tlc.cleanup(tv)
    os.unlink(path)
    return final


def summarize_pipeline(report, cases, final, universe):
    rejected = {}
    for tid, (v, l) in sorted(final.items()):
        if not v.startswith("ok"):
            rejected.setdefault(v, []).append({"universe": cases[tid - 1]["u"], "doc": cases[tid - 1]["d"], "listing": cases[tid - 1]["l"], "event": l})
    steps = sum(len(c["events"]) for c in cases)
    kinds = {}
    for c in cases:
        for e in c["events"]:
            kinds[e["ev"]] = kinds.get(e["ev"], 0) + 1
    report.cov["pipeline_model"] = {
        "traces": len(cases), "of_universe": universe, "verdicts": len(final), "events": steps, "events_by_stage": kinds,
        "explained_completely": sum(1 for v, _ in final.values() if v.startswith("ok")),
        "outcomes": {k: sum(1 for v, _ in final.values() if v == k) for k in ("ok:found", "ok:notfound", "ok:error")},
        "drift": {k: {"traces": len(v), "first": v[0]} for k, v in rejected.items()},
        "note": "one trace = one real first-match operation; every stage event is explained by the action of spec/Jasm.tla of "
                "the same name with the logged tree / regex text / stream / result bound to the primed variables",
    }
    if rejected:
        report.notes.append(f"pipeline model (Jasm.tla): {sum(len(v) for v in rejected.values())} traces not explained "
                            f"({', '.join(sorted(rejected))}) -- drift of the model, not a violation")


def run(prop, tier):
    report = Report(prop, tier)
    # design level: the expansion algorithm as implemented (JasmMacroPass) against the property-level
    # meaning (InlineRef / Unresolved); the control is the pinned tree's algorithm and must fail
    steps = ([("MC_MacroPass", "MC_MacroPass_C13.cfg", False)] if prop == "C13" else
             [("MC_MacroPass", "MC_MacroPass_C19.cfg", False), ("MC_MacroPass", "MC_MacroPass_C19_control.cfg", True)])
    # the composed pipeline (Jasm: pass algorithm -> Parse -> Compile -> regex scan over the encoded stream) against
    # the reference (InlineRef -> Parse -> MI), invariant EndToEnd; control: without the final scan it must fail
    steps += [("MC_Jasm", "MC_Jasm.cfg", False)] + ([("MC_Jasm", "MC_Jasm_control.cfg", True)] if prop == "C19" else [])
    for mod, cfg, must_fail in steps:
        st = tlc.run(mod, cfg=cfg)
        report.add_tlc(st, f"design-level {mod} {cfg}" + (" (control, must fail)" if must_fail else ""))
        if bool(st["violated"]) != must_fail:
            raise MachineryError(f"{mod} {cfg}: expected {'a violation' if must_fail else 'no violation'}\n"
                                 + st["stdout"][-1500:])
        tlc.cleanup(st)
    export = "Export_C13" if prop == "C13" else "Export_C19"
    U = matchpipe.export_universe(export, f"{export}_{tier}.cfg", report)
    docs = U["docs"]
    comp = compile_all(docs, prop.lower())
    cases = []
    for d, (mo, io, mr, ir) in zip(docs, comp):
        cases.append({"prop": prop, "mac_outcome": mo["outcome"], "inl_outcome": io["outcome"],
                      "mac_regex": mo.get("regex", ""), "inl_regex": io.get("regex", ""), "mac_exc": mo.get("exc", ""),
                      "behaviour": "", "must_fail": bool(d.get("must_fail", False)), "names": d.get("names", [])})
    # binding of the pass-algorithm model (JasmMacroPass): does the real expander end the way the model does?
    agree = sum(1 for d, (mo, io, mr, ir) in zip(docs, comp) if d.get("model_outcome") == ("ok" if mo["outcome"] == "ok" else "error"))
    drift = [{"rule": mr["yaml"], "model": d.get("model_outcome"), "code": mo["outcome"], "exc": mo.get("exc")}
             for d, (mo, io, mr, ir) in zip(docs, comp) if d.get("model_outcome") != ("ok" if mo["outcome"] == "ok" else "error")]
    report.cov["macro_pass_model"] = {"documents": len(docs), "same_outcome": agree, "drift_samples": drift[:3]}
    verdicts = validate(cases, report, f"{prop}-1")
    need = [n for n, v in enumerate(verdicts) if v == "need:behaviour"]
    if need:
        res = compare_behaviour([(comp[n][2], comp[n][3]) for n in need], tier, [docs[n].get("witness", []) for n in need])
        for n, r in zip(need, res):
            cases[n]["behaviour"] = r
        v2 = validate([cases[n] for n in need], report, f"{prop}-2")
        for n, v in zip(need, v2):
            verdicts[n] = v
        report.cov["behavioural_comparisons"] = len(need)
    known = [f for f in load_known_findings() if f["status"] == "known" and f["property"] == prop and f.get("tag")]
    for n, (d, c, v) in enumerate(zip(docs, cases, verdicts)):
        if v is None or v.startswith("rej:MACHINERY") or v.startswith("need"):
            raise MachineryError(f"{prop}: {v} for {comp[n][3]['yaml']} / {comp[n][1].get('exc')}")
        if v.startswith("rej"):
            tag = d.get("tag", "")
            hit = [f for f in known if f["tag"] == tag]
            if hit:
                report.known_finding(hit[0]["id"], hit[0]["what"])
                continue
            if len(report.violations) < 50:
                report.violation(v[4:], {"kind": "macro", "rule": comp[n][2], "inlined": comp[n][3]["yaml"],
                                         "observed": comp[n][0], "observed_inlined": comp[n][1], "spec": {"must_fail": c["must_fail"], "names": c["names"]}})
    report.cov["evaluations"] = len(cases)
    report.cov["traces_validated_against_impl"] = len(cases)
    report.cov["distinct_nontrivial"] = len({comp[n][2]["yaml"] + "".join(comp[n][2].get("macros", [])) for n in range(len(docs))})
    report.cov["rule"] = ("documents of the TLA+ universe (every sequence of use items x every split of the definitions); each is "
                          "compiled by the real code together with its InlineRef form; every document uses at least one macro; "
                          "distinct by rendered text")
    report.cov["by_verdict"] = {k: sum(v == k for v in verdicts) for k in sorted(set(verdicts))}
    report.cov["exhaustive"] = True
    for n in range(0, len(docs), max(1, len(docs) // 4)):
        report.sample({"macro_rule": comp[n][2]["yaml"], "extra_macro_files": comp[n][2].get("macros", []),
                       "inlined_by_spec": comp[n][3]["yaml"], "outcome": comp[n][0]["outcome"], "tlc_verdict": verdicts[n]})
    if prop == "C13":
        pipeline_traces(report, tier)
    report.assumptions += ["equal compiled matcher text of two outputs of the same compiler is taken as 'same matcher'; "
                           "different text is compared behaviourally on all listings up to length 2 (quick) / 3 (thorough)"]
    return report.finish()


def replay(prop, path):
    from ..common import replay_by_rerun
    return replay_by_rerun(prop, path)
