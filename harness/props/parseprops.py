"""C08, C09, C10: objdump listing text -> instruction stream.

  A  spec -> code: TLC prints abstract listings (U_C08: every line kind / every operand form of C09),
     the real parser reads the text, TLC validates the stream against Stream(listing)
  B  code -> spec: objects assembled from random bytes (C08, C10) or from AT&T templates (C09) are
     disassembled by the installed objdump; the real parser reads that text in chunks; TLC, using the
     grammar of JasmObjdump (ParseLine / NormOfText), validates the stream the parser produced
"""
import json
import random

from .. import matchpipe, objdump, parsepipe, tlc
from ..common import Report, MachineryError, load_known_findings, seed

# a record that is lost or invented (C08_Count) also means that the stream does not encode the instruction list (C10)
OWN = {"C08": ("C08_",), "C09": ("C09_", "C08_ParserFailed"), "C10": ("C10_", "C08_Count")}
SIZES = {  # tier -> (random bytes, template instructions, chunk size)
    "quick": dict(blob=120000, templates=12000, chunk=40, i386=24000),
    "thorough": dict(blob=1200000, templates=150000, chunk=40, i386=250000),
}


RANGE = ["0x401000", "0x401020"]
RANGE_RULE = "config:\n  valid_addr_range:\n    min: '0x401000'\n    max: '0x401020'\npattern:\n- nop\n"
INTEL_RULE = "config:\n  style: intel\npattern:\n- nop\n"


def design_level(report, tier):
    for mod, cfg, must_fail in (("MC_Encode", "MC_Encode.cfg", False),
                                ("MC_Encode", "MC_Encode_control.cfg", True),
                                ("MC_Objdump", f"MC_Objdump_{tier}.cfg", False)):
        st = tlc.run(mod, cfg=cfg)
        report.add_tlc(st, f"design-level {mod} {cfg}")
        if must_fail and not st["violated"]:
            raise MachineryError(f"non-vacuity control {cfg} did not fail")
        if not must_fail and st["violated"]:
            raise MachineryError(f"design-level check {mod} {cfg} failed: {st['violated']}\n{st['stdout'][-2000:]}")
        tlc.cleanup(st)


def part_a(report, prop, tier):
    U = matchpipe.export_universe("Export_C08", f"Export_C08_{tier}.cfg", report)
    report.scale_block = U["scale_block"]
    items = U["listings"]
    if prop == "C08":
        items = [x for x in items if not (x["listing"] and all(l["mn"] == "op" for l in x["listing"] if l["kind"] == "insn"))]
    elif prop == "C09":
        items = [x for x in items if x["listing"] and all(l["mn"] == "op" for l in x["listing"] if l["kind"] == "insn")]
    texts = ["\n".join(x["lines"]) + "\n" for x in items]
    obs = parsepipe.parse_texts(texts, f"{prop}a")
    cases = [parsepipe.case("abs", x["lines"], x["listing"], o) for x, o in zip(items, obs)]
    if prop == "C08":
        # the same listings with the library's logger at DEBUG level (`jasm --debug`): logging must not change the stream
        obs_d = parsepipe.parse_texts(texts, f"{prop}ad", debug_level=True)
        cases += [parsepipe.case("abs", x["lines"], x["listing"], o) for x, o in zip(items, obs_d)]
    if prop in ("C08", "C10"):
        # the same listings under a rule with valid_addr_range: tagging rewrites operands, it never removes a record
        # and never touches an address or a mnemonic
        obs_r = parsepipe.parse_texts(texts, f"{prop}ar", rule=RANGE_RULE)
        cases += [parsepipe.case("range", x["lines"], x["listing"], o, x["lines"], o2, RANGE) for x, o, o2 in zip(items, obs, obs_r)]
    if prop == "C09":
        # another rule (with `style: intel') is compiled between this rule's compilation and its matching: the listing
        # is AT&T text whatever rule was compiled last
        obs_i = parsepipe.parse_texts(texts, f"{prop}ai", interleave=INTEL_RULE)
        cases += [parsepipe.case("abs", x["lines"], x["listing"], o) for x, o in zip(items, obs_i)]
    verdicts = parsepipe.validate(cases, report, f"{prop}a")
    return cases, verdicts


def real_objdump_cases(rnd, tier, prop):
    sz = SIZES[tier]
    texts = []
    if prop in ("C08", "C10"):
        obj = objdump.assemble(objdump.random_blob_source(rnd, sz["blob"]), "blob64")
        texts.append(("random bytes x86-64", objdump.objdump_text(obj)))
        if sz["i386"]:
            obj = objdump.assemble(objdump.random_blob_source(rnd, sz["i386"]), "blob32", bits=32)
            texts.append(("random bytes i386", objdump.objdump_text(obj)))
    if prop in ("C09", "C10"):
        obj = objdump.assemble(objdump.template_source(rnd, sz["templates"]), "tmpl")
        texts.append(("assembled AT&T templates", objdump.objdump_text(obj)))
    if prop in ("C08", "C09", "C10"):
        # segment overrides with an index, AVX-512 broadcast / mask decorations, x87 stack registers, string
        # instructions with two memory operands, prefixes, indirect branches, long nops ...
        obj = objdump.assemble(objdump.template_source(rnd, sz["templates"] // 2, extended=True), "tmplx")
        texts.append(("assembled extended templates", objdump.objdump_text(obj)))
        # the same code at a high-half address: objdump prints such addresses flush left (no leading blanks)
        import subprocess
        small = objdump.assemble(objdump.template_source(rnd, 400, extended=True), "tmplhi")
        subprocess.run(["objcopy", "--change-section-address", ".text=0xffffffff81000000", small, small + ".hi"], check=True)
        texts.append(("assembled templates at 0xffffffff81000000", objdump.objdump_text(small + ".hi")))
    chunks = []
    for origin, text in texts:
        lines = text.split("\n")
        for ch in objdump.chunks(lines, sz["chunk"]):
            chunks.append((origin, ch))
        # and the head of every listing in one piece (behaviour that depends on what was parsed earlier in the
        # same listing -- caches, memo tables -- does not show on 40-line chunks)
        chunks.append((origin + " (first 1200 lines in one piece)", lines[:1200]))
    return chunks


def part_b(report, prop, tier):
    rnd = random.Random(seed() * 7919 + 13)
    chunks = real_objdump_cases(rnd, tier, prop)
    texts = ["\n".join(ch) + "\n" for _, ch in chunks]
    obs = parsepipe.parse_texts(texts, f"{prop}b")
    cases = [parsepipe.case("text", ch, [], o) for (_, ch), o in zip(chunks, obs)]
    verdicts = parsepipe.validate(cases, report, f"{prop}b")
    report.cov["real_objdump_lines"] = sum(len(ch) for _, ch in chunks)
    report.cov["real_objdump_instruction_lines"] = sum(o.get("stream", "").count("|") for o in obs if o["outcome"] == "ok")
    return cases, verdicts, obs


def scale_cases(block, tier):
    """Texts of 10^3 .. 10^5+ lines: a label line and the block repeated K times.  For the large ones the label
    name is sized so that a line ends exactly at character 2**20 of the text (and 2**21 ...)."""
    ks = [1, 255, 4100, 12500] if tier == "quick" else [1, 255, 256, 4100, 9000, 37500]
    out = []
    body = "".join(l + "\n" for l in block)
    ends = []
    off = 0
    for l in block:
        off += len(l) + 1
        ends.append(off)
    for k in ks:
        name = "f"
        for n in range(1, 400):
            head = len("0000000000401000 <" + "f" * n + ">:\n")
            if any((2 ** 20 - head - e) % len(body) == 0 and (2 ** 20 - head - e) // len(body) < k for e in ends):
                name = "f" * n
                break
        text = "0000000000401000 <" + name + ">:\n" + body * k
        out.append((k, text))
    return out


def part_scale(report, prop, tier, block):
    sc = scale_cases(block, tier)
    obs = parsepipe.parse_texts([t for _, t in sc], f"{prop}s")
    cases = []
    for (k, _), o in zip(sc, obs):
        c = parsepipe.case("scale", block, [], o)
        c["reps"] = k
        cases.append(c)
    verdicts = parsepipe.validate(cases, report, f"{prop}s")
    report.cov.setdefault("scale_texts", []).extend({"block_repetitions": k, "lines": k * len(block) + 1, "chars": len(t)} for k, t in sc)
    return cases, verdicts


def settle(report, prop, cases, verdicts, obs_by_case, part):
    own = OWN[prop]
    known = [f for f in load_known_findings() if f["status"] == "known" and f["property"] == prop and f.get("tag")]
    for n, (c, v) in enumerate(zip(cases, verdicts)):
        if not v.startswith("rej"):
            continue
        clause = v[4:].split("|")[0]
        tags = v.split("|")[1:]
        if clause.startswith("MACHINERY"):
            raise MachineryError(f"{prop} part {part}: {v} on {c['lines'][:3]}")
        # clauses that hold in addition to the first one (|also:<clause>): each check looks for its own
        mine = [x for x in [clause] + [t[5:] for t in tags if t.startswith("also:")] if x.startswith(own)]
        if mine:
            clause = mine[0]
        if not clause.startswith(own):
            report.notes.append(f"part {part}: case {n} rejected with {clause}, which belongs to another property")
            continue
        hit = [f for f in known if f["tag"] in tags]
        if hit:
            report.known_finding(hit[0]["id"], hit[0]["what"])
            report.cov["known_finding_cases"] = report.cov.get("known_finding_cases", 0) + 1
            continue
        if len(report.violations) < 50:
            report.violation(clause, {"kind": "parse", "mode": c["mode"], "lines": c["lines"], "listing": c["listing"],
                                      "observed": {"outcome": c["outcome"], "stream": c["stream"],
                                                   "exc": (obs_by_case[n].get("exc") if obs_by_case else None)}})


def run(prop, tier):
    report = Report(prop, tier)
    report.cov["rule"] = ("A: every abstract listing of spec/U_C08.tla printed by TLC (LineText) and parsed by the real code; "
                          "B: chunks of real objdump output (random bytes / assembled templates, seed-dependent) parsed by the real "
                          "code; each case validated by TLC (Trace_Parse). Non-trivial = the case contains at least one "
                          "instruction line; distinct = distinct text")
    report.assumptions += ["installed binutils 2.40 (as, objdump) define what objdump prints",
                           "x86 decoding is not modelled: 'everything objdump can print' is approached by random bytes"]
    design_level(report, tier)
    ca, va = part_a(report, prop, tier)
    settle(report, prop, ca, va, None, "A")
    cb, vb, ob = part_b(report, prop, tier)
    settle(report, prop, cb, vb, ob, "B")
    if prop in ("C08", "C10"):
        cs, vs = part_scale(report, prop, tier, report.scale_block)
        settle(report, prop, cs, vs, None, "scale")
        cb, vb = cb + cs, vb + vs
    allc = ca + cb
    report.cov["evaluations"] = len(allc)
    report.cov["traces_validated_against_impl"] = len(allc)
    seen = set()
    for c in allc:
        key = "\n".join(c["lines"])
        if key not in seen and any("\t" in l and ":" in l for l in c["lines"]):
            seen.add(key)
    report.cov["distinct_nontrivial"] = len(seen)
    report.cov["parts"] = [{"part": "A (TLC-printed listings)", "cases": len(ca), "rejected": sum(v.startswith("rej") for v in va)},
                           {"part": "B (real objdump chunks)", "cases": len(cb), "rejected": sum(v.startswith("rej") for v in vb)}]
    for c, v in list(zip(ca, va))[:: max(1, len(ca) // 2)][:2] + list(zip(cb, vb))[:: max(1, len(cb) // 2)][:2]:
        report.sample({"mode": c["mode"], "lines": c["lines"][:6], "observed_stream": c["stream"][:300], "tlc_verdict": v})
    run_witnesses(report, prop)
    return report.finish()


def run_witnesses(report, prop):
    for f in load_known_findings():
        if f["property"] != prop or f.get("witness", {}).get("kind") != "parse":
            continue
        w = f["witness"]
        obs = parsepipe.parse_texts(["\n".join(w["lines"]) + "\n"], f"{prop}w")
        c = parsepipe.case("text", w["lines"], [], obs[0])
        v = parsepipe.validate([c], report, f"{prop}w")[0]
        still = v.startswith("rej")
        if f["status"] == "known" and still:
            report.known_finding(f["id"], f"{f['what']} [witness rejected by TLC: {v}]")
        elif f["status"] == "known":
            report.notes.append(f"known finding {f['id']} no longer reproduces ({v})")
        elif f["status"] == "fixed" and still:
            report.violation(f"fixed finding {f['id']} is back: {v}", {"kind": "parse", "mode": "text", "lines": w["lines"],
                                                                      "listing": [], "observed": obs[0]})


def replay(prop, path):
    with open(path) as f:
        rep = json.load(f)["case"]
    if rep["mode"] not in ("abs", "text"):
        # two observations (pair, range) or a generated text (scale): only the check itself rebuilds them
        from ..common import replay_by_rerun
        return replay_by_rerun(prop, path)
    report = Report(prop, "quick")
    obs = parsepipe.parse_texts(["\n".join(rep["lines"]) + "\n"], f"{prop}r")
    c = parsepipe.case(rep["mode"], rep["lines"], rep.get("listing") or [], obs[0])
    v = parsepipe.validate([c], report, f"{prop}r")[0]
    print("replay verdict:", v, str(obs[0])[:1500])
    if v.startswith("rej"):
        return 1
    # the case may have been observed under a variation (DEBUG level, a range rule, a rule compiled in between, a
    # repeated block): run the check again and look for the same case
    from ..common import replay_by_rerun
    return replay_by_rerun(prop, path)
