"""C20: the `jasm` command reports what the library computes.

The universe of invocations (every combination of -p, -s/-b, --all-matches, --return_only_address, --macros orders,
(rule, input) pairs incl. a failing operation) is defined in spec/JasmCLI.tla and exported by TLC.  Every invocation
is run as a real process (`python -m jasm.main`, and the `jasm` console script for a sub-sample); the library API is run
on the same inputs (the property's own oracle); TLC validates exit status, verdict line and address lines (Trace_CLI).
"""
import concurrent.futures
import json
import os
import re
import subprocess

from .. import matchpipe, objdump, tlc
from ..common import Report, MachineryError, REPO, PY, scratch

LISTING = """
x.o:     file format elf64-x86-64

Disassembly of section .text:

0000000000000000 <f>:
   0:\t53                   \tpush   %rbx
   1:\t55                   \tpush   %rbp
   2:\te8 05 00 00 00       \tcall   c <g>
   7:\t5d                   \tpop    %rbp
   8:\t5b                   \tpop    %rbx
   9:\tc3                   \tret
"""
BIN_SRC = "\t.text\nf:\n\tpush %rbx\n\tpush %rbp\n\tcall g\n\tpop %rbp\n\tpop %rbx\n\tret\ng:\n\tret\n"
# an object with two code sections: objdump restarts the addresses at 0 in each (identical match texts)
DUP_LISTING = """
d.o:     file format elf64-x86-64


Disassembly of section .text.first:

0000000000000000 <first>:
   0:\t55                   \tpush   %rbp
   1:\t48 89 e5             \tmov    %rsp,%rbp
   4:\tc3                   \tret

Disassembly of section .text.second:

0000000000000000 <second>:
   0:\t55                   \tpush   %rbp
   1:\t48 89 e5             \tmov    %rsp,%rbp
   4:\tc3                   \tret
"""
DUP_SRC = ("\t.section .text.first,\"ax\",@progbits\nfirst:\n\tpush %rbp\n\tmov %rsp,%rbp\n\tret\n"
           "\t.section .text.second,\"ax\",@progbits\nsecond:\n\tpush %rbp\n\tmov %rsp,%rbp\n\tret\n")
RANGE_LISTING = LISTING + "   a:\tff d0                \tcall   *%rax\n   c:\te8 ef ff ff ff       \tcall   0 <f>\n"
RANGE_SRC = BIN_SRC + "\tcall *%rax\n\tcall f\n"
PAIR_RULES = {
    "found": "pattern:\n- call\n",
    "many": "pattern:\n- p\n",
    "none": "pattern:\n- zzz\n",
    "fail": "pattern:\n- push\n- $or: []\n",
    "macro": "pattern:\n- '@x'\n- '@y'\n",
    "binfound": "pattern:\n- pop\n- pop\n- ret\n",
    "dup": "pattern:\n- push\n- mov\n",
    # the input does not have the kind the flag announces: -s with the object file, -b with the listing text
    "wrongkind": "pattern:\n- call\n",
    # neither a listing nor an object file (-s: no instruction lines at all; -b: objdump refuses it)
    "notalisting": "pattern:\n- call\n",
    # one finding of more than 150 instructions (a reported text of several thousand characters)
    "long": "pattern:\n- push\n- $not:\n  - ret\n  times:\n    min: 0\n    max: 400\n- ret\n",
    # more than a thousand findings in one run: one output line per element of the API's list, however many there are
    "crowd": "pattern:\n- nop\n",
    "range": "config:\n  valid_addr_range:\n    min: '0x0'\n    max: '0x100'\npattern:\n- call:\n  - valid_addr\n",
}
MACROS = {"m1": "macros:\n- name: '@x'\n  pattern: push\n- name: '@y'\n  pattern: call\n",
          "m2": "macros:\n- name: '@x'\n  pattern: pop\n- name: '@y'\n  pattern: ret\n"}
# any line of the command's output that carries a result message, whatever handler / format printed it
LINE = re.compile(r"(Matched address: .*|RESULT: Pattern (?:not )?found)$")


def run(prop, tier):
    report = Report(prop, tier)
    st = tlc.run("Export_C20", cfg=f"Export_C20_{tier}.cfg", env={"JASM_OUT": os.path.join(scratch(), "u20.json")}, workers=1)
    report.add_tlc(st, f"Export_C20 {tier}")
    tlc.cleanup(st)
    with open(os.path.join(scratch(), "u20.json")) as f:
        invs = json.load(f)["invocations"]
    d = os.path.join(scratch(), "c20")
    os.makedirs(d)
    files = {}
    for k, t in PAIR_RULES.items():
        files[k] = os.path.join(d, f"{k}.yaml")
        with open(files[k], "w") as f:
            f.write(t)
    for k, t in MACROS.items():
        files[k] = os.path.join(d, f"{k}.yaml")
        with open(files[k], "w") as f:
            f.write(t)
    text = os.path.join(d, "in.s")
    with open(text, "w") as f:
        f.write(LISTING)
    obj = objdump.assemble(BIN_SRC, "c20bin")
    inputs = {"dup": (os.path.join(d, "dup.s"), objdump.assemble(DUP_SRC, "c20dup")),
              "range": (os.path.join(d, "range.s"), objdump.assemble(RANGE_SRC, "c20range"))}
    for k, t in (("dup", DUP_LISTING), ("range", RANGE_LISTING)):
        with open(inputs[k][0], "w") as f:
            f.write(t)
    long_obj = objdump.assemble("\t.text\nf:\n\tpush %rbp\n" + "\tinc %eax\n\tmov %rsp,%rbp\n" * 80 + "\tret\n", "c20long")
    long_text = os.path.join(d, "long.s")
    with open(long_text, "w") as f:
        f.write(objdump.objdump_text(long_obj))
    inputs["long"] = (long_text, long_obj)
    crowd_obj = objdump.assemble("\t.text\nf:\n" + "\tnop\n" * 1500 + "\tret\n", "c20crowd")
    crowd_text = os.path.join(d, "crowd.s")
    with open(crowd_text, "w") as f:
        f.write(objdump.objdump_text(crowd_obj))
    inputs["crowd"] = (crowd_text, crowd_obj)
    inputs["wrongkind"] = (obj, text)
    junk = os.path.join(d, "notes.txt")
    with open(junk, "w") as f:
        f.write("push %rbx\ncall g\nnot a listing, not an object file\n")
    inputs["notalisting"] = (junk, junk)

    def text_of(inv):
        return inputs.get(inv["pair"], (text, obj))[0]

    def obj_of(inv):
        return inputs.get(inv["pair"], (text, obj))[1]

    def argv_of(inv):
        a = []
        if inv["pat"] == "T":
            a += ["-p", files[inv["pair"]]]
        for s in sorted(inv["src"], reverse=True):     # -s before -b
            a += (["-s", text_of(inv)] if s == "s" else ["-b", obj_of(inv)])
        if inv["all"] == "T":
            a.append("--all-matches")
        if inv["addr"] == "T":
            a.append("--return_only_address")
        if inv["macros"]:
            a += ["--macros"] + [files[m] for m in inv["macros"]]
        if inv["dbg"] == "T":
            a.append("--debug")
        return a

    env = dict(os.environ, PYTHONPATH=os.path.join(REPO, "src"), PYTHONDONTWRITEBYTECODE="1")

    def run_cli(n):
        inv = invs[n]
        cwd = os.path.join(d, f"cwd{n}")
        os.makedirs(cwd)
        front = [PY, "-m", "jasm.main"] if n % 7 else [os.path.join(os.path.dirname(PY), "jasm")]
        p = subprocess.run(front + argv_of(inv), cwd=cwd, env=env, capture_output=True, text=True, timeout=120)
        lines = [m.group(1) for m in (LINE.search(l) for l in p.stderr.split("\n")) if m]
        return {"exit": p.returncode, "lines": lines, "stderr_tail": p.stderr[-300:]}

    with concurrent.futures.ThreadPoolExecutor(16) as ex:
        clis = list(ex.map(run_cli, range(len(invs))))
    # library oracle for the invocations that are not usage errors
    rules, listings, pairs, where = [], [], [], {}
    for n, inv in enumerate(invs):
        if inv["usage"]:
            continue
        r = {"id": len(rules), "yaml": PAIR_RULES[inv["pair"]], "macro_paths": [files[m] for m in inv["macros"]]}
        rules.append(r)
        li = {"id": len(listings), "path": text_of(inv) if inv["src"] == ["s"] else obj_of(inv), "binary": inv["src"] == ["b"]}
        listings.append(li)
        pairs.append([len(rules) - 1, len(listings) - 1])
        where[n] = (len(rules) - 1, len(listings) - 1)
    obs = matchpipe.drive({"rules": rules, "listings": listings, "pairs": pairs, "fresh": True}, tag="c20")
    by = {(o["r"], o["l"]): o for o in obs}
    cases = []
    for n, inv in enumerate(invs):
        api = {"outcome": "ok", "list": [], "found": False}
        if not inv["usage"]:
            o = by[where[n]]
            if o["outcome"] != "ok":
                api["outcome"] = "error"
            else:
                key = ("A" if inv["all"] == "T" else "F") + ("A" if inv["addr"] == "T" else "T")
                api["list"] = o["res"]["L" + key]
                api["found"] = o["res"]["B" + key]
        cases.append({"pat": inv["pat"], "src": inv["src"], "all": inv["all"], "addr": inv["addr"], "macros": inv["macros"],
                      "pair": inv["pair"], "dbg": inv["dbg"], "api": api, "cli": {"exit": clis[n]["exit"], "lines": clis[n]["lines"]}})
    path = os.path.join(scratch(), "c20.cases.json")
    with open(path, "w") as f:
        json.dump({"cases": cases}, f)
    tv = tlc.run("Trace_CLI", env={"JASM_CASES": path}, dump=True)
    report.add_tlc(tv, "Trace_CLI")
    verdicts = [None] * len(cases)
    for s in tlc.read_dump(tv["dump"]):
        if s["verdict"] != "?":
            verdicts[s["idx"] - 1] = s["verdict"]
    tlc.cleanup(tv)
    for n, (c, v) in enumerate(zip(cases, verdicts)):
        if v is None:
            raise MachineryError("Trace_CLI gave no verdict")
        if v.startswith("rej") and len(report.violations) < 50:
            report.violation(v[4:], {"kind": "cli", "argv": argv_of(invs[n]), "invocation": invs[n], "api": c["api"],
                                     "cli": clis[n], "rule": PAIR_RULES[invs[n]["pair"]]})
    report.cov["evaluations"] = len(cases)
    report.cov["traces_validated_against_impl"] = len(cases)
    report.cov["distinct_nontrivial"] = sum(1 for v in verdicts if v in ("ok", "ok:fail")) + \
        len({(c["pat"], tuple(c["src"])) for c, v in zip(cases, verdicts) if v == "ok:usage"})
    report.cov["rule"] = ("invocations = the full cross product of spec/JasmCLI.tla!Invocations, each run as a real process; "
                          "non-trivial = invocations that perform an operation (found / not found / failing) counted "
                          "individually, usage errors counted once per distinct (-p, -s/-b) shape")
    report.cov["exhaustive"] = True
    report.cov["by_verdict"] = {k: sum(v == k for v in verdicts) for k in sorted(set(verdicts))}
    for n in range(3, len(cases), max(1, len(cases) // 5)):
        report.sample({"argv": [os.path.basename(a) if os.sep in a else a for a in argv_of(invs[n])], "cli": cases[n]["cli"],
                       "api": cases[n]["api"], "tlc_verdict": verdicts[n]})
    report.assumptions += ["log lines are read from the command's stderr (the terminal handler)",
                           "every 7th invocation goes through the installed `jasm` console script, the others through python -m jasm.main"]
    return report.finish()


def replay(prop, path):
    from ..common import replay_by_rerun
    return replay_by_rerun(prop, path)
