"""Listing text -> real parser -> stream, validated by TLC (Trace_Parse)."""
import json
import os

from . import matchpipe, tlc
from .common import MachineryError, scratch

TRIVIAL_RULE = "pattern:\n- zzzzzz\n"


def parse_texts(texts, tag, rule=None, **job_extra):
    """Run the real code (assembly mode, stream return mode) on every text.
    job_extra: debug_level=True (the logger at DEBUG level), interleave=<rule yaml> (another rule compiled between
    the compilation and the matching)."""
    global TRIVIAL_RULE
    saved = TRIVIAL_RULE
    if rule is not None:
        TRIVIAL_RULE = rule
    try:
        return _parse_texts(texts, tag, job_extra)
    finally:
        TRIVIAL_RULE = saved


def _parse_texts(texts, tag, job_extra=None):
    job = {"rules": [{"id": 0, "yaml": TRIVIAL_RULE}],
           "listings": [{"id": n, "text": t} for n, t in enumerate(texts)],
           "pairs": "all", "stream_only": True, "isolate": True, "repeat": True}
    # one rule only: spread the listings over the pool by splitting into pseudo rules
    nrules = min(64, max(1, len(texts) // 20))
    job["rules"] = [{"id": r, "yaml": TRIVIAL_RULE} for r in range(nrules)]
    job["pairs"] = [[n % nrules, n] for n in range(len(texts))]
    job.update(job_extra or {})
    obs = matchpipe.drive(job, tag=tag)
    obs.sort(key=lambda o: o["l"])
    return obs


def validate(cases, report, name):
    if not cases:
        return []
    path = os.path.join(scratch(), f"{name}.pcases.json")
    with open(path, "w") as f:
        json.dump({"cases": cases}, f)
    st = tlc.run("Trace_Parse", env={"JASM_CASES": path}, dump=True, heap="16g", timeout=7200)
    report.add_tlc(st, f"validate {name}")
    verdicts = [None] * len(cases)
    for s in tlc.read_dump(st["dump"]):
        if s["verdict"] != "?":
            verdicts[s["idx"] - 1] = s["verdict"]
    tlc.cleanup(st)
    os.unlink(path)
    if any(v is None for v in verdicts):
        raise MachineryError(f"TLC gave no verdict for some cases of {name}")
    return verdicts


def case(mode, lines, listing, o, lines2=(), o2=None, rng=()):
    c = {"mode": mode, "lines": lines, "listing": listing, "outcome": o["outcome"],
         "stream": o.get("stream", "") if o["outcome"] == "ok" else "",
         "lines2": list(lines2), "outcome2": "", "stream2": "", "range": list(rng), "reps": 0}
    # the stream the SAME object hands to the matcher when it is asked a second time
    c["again"] = o.get("again", {}).get("stream", c["stream"]) if o["outcome"] == "ok" else ""
    if o2 is not None:
        c["outcome2"] = o2["outcome"]
        c["stream2"] = o2.get("stream", "") if o2["outcome"] == "ok" else ""
    return c
