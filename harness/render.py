"""Renderers from abstract values (as exported by TLC) to concrete artefacts.

Nothing here interprets a pattern: `unparse` is the inverse of the documented
grammar (JasmSyntax.tla specifies the same mapping and the check `syntax`
compares the two), `listing_text` prints an abstract listing the way objdump
prints instruction lines.
"""
import yaml

from .common import MachineryError


def times_doc(p):
    lo, hi = p["lo"], p["hi"]
    if lo == 1 and hi == 1:
        return None
    if lo == hi:
        return lo
    return {"min": lo, "max": hi}


def cap_name(q, upper_suffix=False):
    n = "&" + q["name"]
    if q.get("w"):
        w = q["w"].upper() if upper_suffix else q["w"]
        n += "." + w
    return n


def name_doc(n, opt):
    """spelling `ints`: a decimal numeral is written unquoted, i.e. read by YAML as an integer"""
    if opt.get("ints") and n.isdigit() and len(n) <= 8 and (len(n) == 1 or n[0] != "0"):
        return int(n)
    return n


def unparse_field(fp, opt):
    k = fp["k"]
    if k == "flit":
        return name_doc(fp["name"], opt)
    if k == "for":
        return {"$or": [unparse_field(x, opt) for x in fp["kids"]]}
    if k in ("fcap", "frcap"):
        return cap_name(fp, opt.get("upper_suffix", False))
    raise MachineryError(f"unparse: unknown field kind {k}")


GROUP = {"and": "$and", "or": "$or", "not": "$not", "perm": "$and_any_order",
         "oand": "$and", "oor": "$or", "onot": "$not", "operm": "$and_any_order"}


def unparse_op(q, opt):
    k = q["k"]
    t = times_doc(q)
    if k in ("lit", "ocap", "rcap") and t is not None:
        raise MachineryError("the grammar has no spelling for `times` on a plain operand or capture")
    if k == "lit":
        return name_doc(q["name"], opt)
    if k in ("ocap", "rcap"):
        return cap_name(q, opt.get("upper_suffix", False))
    if k == "deref":
        # a field holding a group is written as a one-element list (tests/yamls/logic_operators_inside_deref.yaml)
        d = {"$deref": {f["name"]: ([unparse_field(f["kids"][0], opt)] if f["kids"][0]["k"] == "for"
                                    else unparse_field(f["kids"][0], opt)) for f in q["kids"]}}
        if t is not None:
            d["times"] = t
        return d
    if k in ("oand", "oor", "onot", "operm"):
        d = {GROUP[k]: [unparse_op(x, opt) for x in q["kids"]]}
        if t is not None:
            d["times"] = t
        return d
    raise MachineryError(f"unparse: unknown operand kind {k}")


def unparse_item(p, opt):
    """opt['times'] in {'body','sib'}: spelling of times on an operand-less item."""
    k = p["k"]
    t = times_doc(p)
    if k == "ins":
        ops = [unparse_op(q, opt) for q in p["kids"]]
        if not ops and t is None:
            return p["name"]
        if not ops:
            if opt.get("times", "body") == "body":
                return {p["name"]: {"times": t}}
            return {p["name"]: [], "times": t}
        d = {p["name"]: ops}
        if t is not None:
            d["times"] = t
        return d
    if k == "icap":
        if t is not None:
            raise MachineryError("the grammar has no spelling for `times` on an instruction capture")
        return "&" + p["name"]
    if k in ("and", "or", "not", "perm"):
        d = {GROUP[k]: [unparse_item(x, opt) for x in p["kids"]]}
        if t is not None:
            d["times"] = t
        return d
    raise MachineryError(f"unparse: unknown item kind {k}")


def rule_doc(P, mfm=False, ofm=False, opt=None, config_extra=None, macros=None, explicit_flags=False):
    """Document tree of a rule whose top-level pattern is the `and` node P."""
    opt = opt or {}
    if P["k"] != "and" or P["lo"] != 1 or P["hi"] != 1:
        raise MachineryError("top-level pattern must be a plain sequence")
    doc = {}
    cfg = {}
    if mfm or explicit_flags:
        cfg["mnemonics-full-match"] = bool(mfm)
    if ofm or explicit_flags:
        cfg["operands-full-match"] = bool(ofm)
    if config_extra:
        cfg.update(config_extra)
    if cfg:
        doc["config"] = cfg
    if macros:
        doc["macros"] = macros
    doc["pattern"] = [unparse_item(x, opt) for x in P["kids"]]
    return doc


def share_equal(doc):
    """The same document with equal composite subtrees made ONE object: yaml.safe_dump then writes the subtree
    once with an anchor (&id001) and refers to it by alias (*id001) -- a spelling of the same rule."""
    pool = {}

    def walk(x):
        if isinstance(x, dict):
            y = {k: walk(v) for k, v in x.items()}
        elif isinstance(x, list):
            y = [walk(v) for v in x]
        else:
            return x
        if not y:
            return y
        key = yaml.safe_dump(y, sort_keys=False)
        return pool.setdefault(key, y)
    return walk(doc)


def dump_yaml(doc):
    text = yaml.safe_dump(doc, sort_keys=False, default_flow_style=False, width=1000)
    back = yaml.safe_load(text)
    if back != doc or _key_order(back) != _key_order(doc):
        raise MachineryError(f"YAML round trip failed for {doc!r}")
    return text


def _key_order(d):
    if isinstance(d, dict):
        return [(k, _key_order(v)) for k, v in d.items()]
    if isinstance(d, list):
        return [_key_order(v) for v in d]
    return None


# ------------------------------------------------------------------ listings
def insn_line(ins, nbytes="90", pad="  "):
    """One objdump instruction line whose operands are already in normal form.

    Operand tokens without parentheses, '$', '#', blanks and commas pass through the
    operand normaliser unchanged, so the abstract operand text is the text in the stream."""
    head = f"{pad}{ins['addr']}:\t{nbytes} \t{ins['mn']}"
    if ins["ops"]:
        return head + " " + ",".join(ins["ops"])
    return head


def listing_text(L, header=True):
    lines = []
    if header:
        lines += ["", "a.out:     file format elf64-x86-64", "", "",
                  "Disassembly of section .text:", "", "0000000000000000 <f>:"]
    lines += [insn_line(i) for i in L]
    return "\n".join(lines) + "\n"
