"""Seeded random generator of abstract patterns and listings (code -> spec direction only).

The exhaustive universes are defined in TLA+; this generator adds larger, deeper patterns than those hold.  It produces
values of the same abstract syntax (harness/pat.py); TLC re-checks the scope predicates of the properties on every
generated case (Trace_Match!InScope) and skips what is outside, so nothing here has to be trusted for soundness.
"""
import random

from .pat import node, ins, lit, seq, group, icap, ocap, rcap

# single letters (which also occur inside addresses and other names) and real words (which occur nowhere else)
MN = ["a", "b", "c", "ab", "p", "inc", "xchg", "leave"]
OPS = ["x", "y", "xy", "%r8", "%r8d", "0x1", "0x10", "%rax", "%eax", "%al"]


class Gen:
    def __init__(self, seed, features):
        self.r = random.Random(seed)
        self.f = features          # subset of {"times","groups","not","icap","ocap","rcap","ops","onot","ogroups"}
        self.caps = []

    def times(self, p, nullable_ok=False):
        if "times" in self.f and self.r.random() < 0.3:
            lo = self.r.randrange(0 if nullable_ok else 1, 3)
            hi = lo + self.r.randrange(0, 3)
            p = dict(p, lo=lo, hi=hi)
        return p

    def operand(self, depth, spine):
        r = self.r.random()
        if "ocap" in self.f and r < 0.2:
            used = [c for c in self.caps if c[0] == "o"]
            if used and (not spine or self.r.random() < 0.6):
                return ocap(self.r.choice(used)[1])
            if spine:
                n = f"o{len(self.caps)}"
                self.caps.append(("o", n))
                return ocap(n)
        if "rcap" in self.f and r < 0.3:
            used = [c for c in self.caps if c[0] == "r"]
            w = self.r.choice(["", "64", "32", "16", "8l"])
            if used and (not spine or self.r.random() < 0.6):
                return rcap(self.r.choice(used)[1], "genreg", w)
            if spine:
                n = f"genreg-{len(self.caps)}"
                self.caps.append(("r", n))
                return rcap(n, "genreg", w)
        if "ogroups" in self.f and depth > 0 and r < 0.5:
            k = self.r.choice(["oor", "oand", "operm"] + (["onot"] if "onot" in self.f else []))
            if k == "onot":
                return group("onot", self.operand(depth - 1, False))
            n = self.r.randrange(2, 4)
            return self.times(group(k, *[self.operand(depth - 1, spine and k == "oand") for _ in range(n)]))
        return lit(self.r.choice(OPS))

    def item(self, depth, spine):
        r = self.r.random()
        if "icap" in self.f and r < 0.15:
            used = [c for c in self.caps if c[0] == "i"]
            if used and (not spine or self.r.random() < 0.6):
                return icap(self.r.choice(used)[1])
            if spine:
                n = f"i{len(self.caps)}"
                self.caps.append(("i", n))
                return icap(n)
        if "groups" in self.f and depth > 0 and r < 0.45:
            k = self.r.choice(["or", "and", "perm"] + (["not"] if "not" in self.f else []))
            if k == "not":
                return self.times(group("not", self.item(depth - 1, False)))
            n = self.r.randrange(2, 4)
            g = group(k, *[self.item(depth - 1, spine and k == "and") for _ in range(n)])
            t = self.times(g)
            return t
        nops = self.r.randrange(0, 3) if "ops" in self.f else 0
        p = ins(self.r.choice(MN), *[self.operand(1, spine) for _ in range(nops)])
        t = self.times(p)
        if (t["lo"], t["hi"]) != (1, 1):
            # a repeated item is off the spine: it must not define captures
            t = dict(t, kids=[k if k["k"] not in ("ocap", "rcap") or any(k["name"] == c[1] for c in self.caps[:-1]) else lit("x")
                              for k in t["kids"]])
        return t

    def pattern(self):
        self.caps = []
        n = self.r.randrange(1, 4)
        items = [self.item(2, True) for _ in range(n)]
        return seq(*items)

    def listing(self, maxlen):
        n = self.r.randrange(0, maxlen + 1)
        out = []
        for k in range(n):
            nops = self.r.choice([0, 1, 1, 2, 3])
            out.append({"addr": format(0x401000 + 3 * k, "x"), "mn": self.r.choice(MN),
                        "ops": [self.r.choice(OPS) for _ in range(nops)]})
        # make repeated instructions likely (captures, times)
        if out and self.r.random() < 0.5:
            i = self.r.randrange(len(out))
            j = self.r.randrange(len(out))
            out[j] = dict(out[i], addr=out[j]["addr"])
        return out


FEATURES = {
    "C01": {"ops"},
    "C02": {"ops", "times", "groups", "not"},
    "C03": {"ops", "groups", "ogroups", "times"},
    "C04": {"ops", "groups", "not", "onot", "ogroups", "times"},
    "C05": {"ops", "groups", "not", "icap", "ocap", "rcap", "ogroups", "times"},
    "C07": {"ops", "groups", "not", "icap", "ocap", "times", "ogroups"},
    "C11": {"ops", "times", "groups", "not"},
}


def universe(prop, seed, n_patterns, n_listings, maxlen=7):
    g = Gen(seed, FEATURES[prop])
    pats = [g.pattern() for _ in range(n_patterns)]
    lsts = [g.listing(maxlen) for _ in range(n_listings)]
    return {"patterns": pats, "listings": lsts}
