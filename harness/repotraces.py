"""Code -> spec: the (rule, input) pairs of the repository's own test configuration, validated by TLC (Trace_Repo)."""
import json
import os

import yaml

from . import matchpipe, tlc
from .common import REPO, MachineryError, scratch


def to_doc(x):
    """Generic YAML value -> Doc tree of spec/JasmMacro.tla (uniform field set)."""
    if isinstance(x, bool):
        return {"t": "str", "s": "true" if x else "false", "i": 0, "items": []}
    if isinstance(x, int):
        return {"t": "int", "s": "", "i": x, "items": []}
    if x is None:
        return {"t": "null", "s": "", "i": 0, "items": []}
    if isinstance(x, str):
        return {"t": "str", "s": x, "i": 0, "items": []}
    if isinstance(x, float):
        return {"t": "str", "s": repr(x), "i": 0, "items": []}
    if isinstance(x, list):
        return {"t": "list", "s": "", "i": 0, "items": [to_doc(v) for v in x]}
    if isinstance(x, dict):
        return {"t": "map", "s": "", "i": 0,
                "items": [{"t": "pair", "s": str(k), "i": 0, "items": [to_doc(v)]} for k, v in x.items()]}
    raise MachineryError(f"cannot convert {type(x)} to a Doc")


def macro_defs(ms):
    out = []
    for m in ms or []:
        if not isinstance(m, dict) or "name" not in m or "pattern" not in m:
            return None
        out.append({"name": str(m["name"]), "args": [str(a) for a in (m.get("args") or [])], "body": to_doc(m["pattern"])})
    return out


def run(report, max_lines=1200, max_insns=400):
    with open(os.path.join(REPO, "tests", "configuration.yaml")) as f:
        entries = yaml.safe_load(f)["test_matching"]
    rules, listings, pairs, meta = [], [], [], []
    for e in entries:
        inp = e.get("assembly") or e.get("binary")
        path = os.path.join(REPO, inp)
        rule_path = os.path.join(REPO, e["yaml"])
        if not os.path.exists(path) or os.path.getsize(path) == 0 or not os.path.exists(rule_path):
            continue
        if e.get("assembly") and sum(1 for _ in open(path, errors="replace")) > max_lines:
            continue
        if e.get("binary") and os.path.getsize(path) > 300000:
            continue
        with open(rule_path) as f:
            text = f.read()
        doc = yaml.safe_load(text)
        if not isinstance(doc, dict) or not isinstance(doc.get("pattern"), list):
            continue
        mfiles = [os.path.join(REPO, m) for m in (e.get("macros") or [])]
        defs = []
        ok = True
        for mf in mfiles:
            d = macro_defs(yaml.safe_load(open(mf)).get("macros"))
            ok = ok and d is not None
            defs += d or []
        d = macro_defs(doc.get("macros"))
        ok = ok and d is not None
        defs += d or []
        if not ok:
            continue
        cfg = doc.get("config") or {}
        rules.append({"id": len(rules), "yaml": text, "macro_paths": mfiles})
        listings.append({"id": len(listings), "path": path, "binary": bool(e.get("binary"))})
        pairs.append([len(rules) - 1, len(listings) - 1])
        meta.append({"title": e["title"], "pattern": to_doc(doc["pattern"]), "macros": defs,
                     "mfm": bool(cfg.get("mnemonics-full-match", False)), "ofm": bool(cfg.get("operands-full-match", False)),
                     "ranged": bool(cfg.get("valid_addr_range")), "expected": e.get("expected")})
    obs = matchpipe.drive({"rules": rules, "listings": listings, "pairs": pairs}, tag="repo")
    by = {(o["r"], o["l"]): o for o in obs}
    cases = []
    kept_meta, kept_pairs = [], []
    for (ri, li), m in zip(pairs, meta):
        o = by[(ri, li)]
        if o.get("stream", "").count("|") > max_insns:
            continue       # TLC's recursive string operators are not meant for listings of thousands of instructions
        kept_meta.append(m)
        kept_pairs.append([ri, li])
        c = matchpipe.case_of(o, 0, 0, m["mfm"], m["ofm"])
        c.update(pattern=m["pattern"], macros=m["macros"], ranged=m["ranged"])
        cases.append(c)
    path = os.path.join(scratch(), "repo.cases.json")
    with open(path, "w") as f:
        json.dump({"cases": cases}, f)
    tv = tlc.run("Trace_Repo", env={"JASM_CASES": path}, dump=True, heap="16g", timeout=1800)
    report.add_tlc(tv, "Trace_Repo (repository test inputs)")
    verdicts = [None] * len(cases)
    for s in tlc.read_dump(tv["dump"]):
        if s["verdict"] not in ("?", "prepared"):
            verdicts[s["idx"] - 1] = s["verdict"]
    tlc.cleanup(tv)
    os.unlink(path)
    return kept_meta, cases, verdicts, [by[tuple(p)] for p in kept_pairs]
