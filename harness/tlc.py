"""Running TLC and reading what it wrote (statistics, state dumps, simulation traces)."""
import os
import re
import shutil
import subprocess
import time

from .common import SPEC, NPROC, MachineryError, scratch

JAR = "/opt/veriftools/tla/tla2tools.jar:/opt/veriftools/tla/CommunityModules-deps.jar"


# ----------------------------------------------------------------- value parser
class _P:
    def __init__(self, s):
        self.s, self.i = s, 0

    def ws(self):
        while self.i < len(self.s) and self.s[self.i] in " \t\r\n":
            self.i += 1

    def peek(self, t):
        self.ws()
        return self.s.startswith(t, self.i)

    def eat(self, t):
        self.ws()
        if not self.s.startswith(t, self.i):
            raise ValueError(f"expected {t!r} at {self.s[self.i:self.i+40]!r}")
        self.i += len(t)

    def value(self):
        self.ws()
        c = self.s[self.i]
        if c == '"':
            j = self.i + 1
            out = []
            while self.s[j] != '"':
                if self.s[j] == "\\":
                    j += 1
                    out.append({"n": "\n", "t": "\t"}.get(self.s[j], self.s[j]))
                else:
                    out.append(self.s[j])
                j += 1
            self.i = j + 1
            return "".join(out)
        if self.s.startswith("<<", self.i):
            self.i += 2
            out = []
            while not self.peek(">>"):
                out.append(self.value())
                if self.peek(","):
                    self.eat(",")
            self.eat(">>")
            return out
        if c == "{":
            self.i += 1
            out = []
            while not self.peek("}"):
                out.append(self.value())
                if self.peek(","):
                    self.eat(",")
            self.eat("}")
            return {"__set__": out}
        if c == "[":
            self.i += 1
            rec = {}
            while not self.peek("]"):
                self.ws()
                m = re.compile(r"[A-Za-z_][A-Za-z0-9_]*").match(self.s, self.i)
                self.i = m.end()
                self.eat("|->")
                rec[m.group(0)] = self.value()
                if self.peek(","):
                    self.eat(",")
            self.eat("]")
            return rec
        if c == "(":
            self.i += 1
            fn = {}
            while True:
                k = self.value()
                self.eat(":>")
                fn[k if isinstance(k, (str, int)) else repr(k)] = self.value()
                if self.peek("@@"):
                    self.eat("@@")
                    continue
                break
            self.eat(")")
            return fn
        m = re.compile(r"-?\d+").match(self.s, self.i)
        if m:
            self.i = m.end()
            return int(m.group(0))
        m = re.compile(r"[A-Za-z_][A-Za-z0-9_]*").match(self.s, self.i)
        if m:
            self.i = m.end()
            w = m.group(0)
            return True if w == "TRUE" else False if w == "FALSE" else w
        raise ValueError(f"cannot parse TLA+ value at {self.s[self.i:self.i+40]!r}")


def parse_value(text):
    return _P(text).value()


def parse_state(block):
    """'/\\ x = v \\n /\\ y = w' -> {x: v, y: w}"""
    state = {}
    parts = re.split(r"^/\\ ", block, flags=re.M)
    for part in parts:
        part = part.strip()
        if not part:
            continue
        name, _, val = part.partition(" = ")
        state[name.strip()] = parse_value(val)
    return state


def read_dump(path, skip=None):
    """States of a `-dump` file.  `skip`: a substring; states whose text contains it are not parsed (trace
    validators only need the states that carry a final verdict, and their states can be large)."""
    with open(path) as f:
        text = f.read()
    for block in re.split(r"^State \d+:\n", text, flags=re.M)[1:]:
        if skip is not None and skip in block:
            continue
        yield parse_state(block)


# ------------------------------------------------------------------- running
def run(module, cfg=None, env=None, workers=None, dump=False, timeout=3600,
        extra=(), simulate=None, coverage=False, heap="8g", check=True, depth_first=False):
    """Run TLC on spec/<module>.tla.  Returns dict(stats..., stdout, dump=path)."""
    workers = workers or NPROC
    run_dir = os.path.join(scratch(), f"tlc-{module}-{time.time_ns()}")
    os.makedirs(run_dir)
    cmd = ["java", "-XX:+UseParallelGC", f"-Xmx{heap}", "-Xss64m", f"-Djava.io.tmpdir={run_dir}"]
    if depth_first:
        cmd.append("-Dtlc2.tool.queue.IStateQueue=StateDeque")
    cmd += ["-cp", JAR, "tlc2.TLC", "-workers", str(workers), "-metadir",
            os.path.join(run_dir, "meta"), "-noGenerateSpecTE"]
    cmd += ["-config", cfg or f"{module}.cfg"]
    dump_path = None
    if dump:
        dump_path = os.path.join(run_dir, "states")
        cmd += ["-dump", dump_path]
        dump_path += ".dump"
    if coverage:
        cmd += ["-coverage", "1"]
    if simulate:
        cmd += ["-simulate", simulate]
    cmd += list(extra) + [f"{module}.tla"]
    full_env = dict(os.environ)
    full_env.pop("JAVA_TOOL_OPTIONS", None)
    if env:
        full_env.update({k: str(v) for k, v in env.items()})
    t0 = time.time()
    try:
        proc = subprocess.run(cmd, cwd=SPEC, env=full_env, capture_output=True, text=True,
                              timeout=timeout)
    except subprocess.TimeoutExpired as exc:
        subprocess.run(["pkill", "-f", run_dir], check=False)
        raise MachineryError(f"TLC timed out on {module} after {timeout}s") from exc
    out = proc.stdout + proc.stderr
    stats = {"module": module, "cfg": cfg or f"{module}.cfg", "wall_s": round(time.time() - t0, 2),
             "exit": proc.returncode, "generated": 0, "distinct": 0, "init": 0}
    m = re.search(r"(\d+) states generated, (\d+) distinct states found", out)
    if m:
        stats["generated"], stats["distinct"] = int(m.group(1)), int(m.group(2))
    m = re.search(r"Finished computing initial states: (\d+) distinct state", out)
    if m:
        stats["init"] = int(m.group(1))
    m = re.search(r"The depth of the complete state graph search is (\d+)", out)
    if m:
        stats["depth"] = int(m.group(1))
    stats["violated"] = re.findall(r"Invariant (\S+) is violated", out) + \
        re.findall(r"Action property (\S+) is violated", out) + \
        re.findall(r"Temporal properties were violated", out)
    stats["ok"] = ("Model checking completed. No error has been found." in out) or \
                  (simulate is not None and proc.returncode == 0)
    stats["stdout"] = out
    stats["dump"] = dump_path
    stats["run_dir"] = run_dir
    if check and not stats["ok"] and not stats["violated"]:
        tail = "\n".join(out.splitlines()[-120:])
        raise MachineryError(f"TLC failed on {module} ({cfg}):\n{tail}")
    return stats


def cleanup(stats):
    shutil.rmtree(stats.get("run_dir", ""), ignore_errors=True)


def coverage_counts(stdout):
    """Per-action counts from a -coverage run: {action: (distinct, total)}"""
    out = {}
    for m in re.finditer(r"^<(\w+) line .*?>: (\d+):(\d+)", stdout, flags=re.M):
        out[m.group(1)] = (int(m.group(2)), int(m.group(3)))
    return out
