"""Real binutils in the loop: assemble snippets / random bytes, disassemble with the installed objdump."""
import os
import random
import subprocess

from .common import MachineryError, scratch


def assemble(src_text, tag, bits=64):
    d = scratch()
    s = os.path.join(d, f"{tag}.s")
    o = os.path.join(d, f"{tag}.o")
    with open(s, "w") as f:
        f.write(src_text)
    p = subprocess.run(["as", "--64" if bits == 64 else "--32", "-o", o, s], capture_output=True, text=True)
    os.unlink(s)
    if p.returncode != 0:
        raise MachineryError(f"as failed: {p.stderr[:500]}")
    return o


def objdump_text(obj, extra=()):
    p = subprocess.run(["objdump", "-d", "-M", "att", *extra, obj], capture_output=True, text=True)
    if p.returncode != 0:
        raise MachineryError(f"objdump failed: {p.stderr[:500]}")
    return p.stdout


def random_blob_source(rnd, nbytes, section=".text"):
    """Random code bytes.  A symbol every few hundred bytes makes objdump restart decoding there, which is
    how truncated instructions and lone prefix bytes (`data16`, `rex.W`, `lock`) get printed."""
    lines = [f"\t.section {section},\"ax\",@progbits" if section != ".text" else "\t.text", "blob:"]
    for n in range(0, nbytes, 16):
        if n and n % 320 == 0:
            # end the chunk before a symbol with a dangling prefix byte now and then
            lines.append("\t.byte " + rnd.choice(["0x66", "0xf0", "0x48", "0xf3", "0x2e", "0x67", "0x0f"]))
            lines.append(f"sym{n}{section.replace('.', '_')}:")
        lines.append("\t.byte " + ",".join(f"0x{rnd.randrange(256):02x}" for _ in range(16)))
    return "\n".join(lines) + "\n"


def chunks(lines, size):
    for i in range(0, len(lines), size):
        yield lines[i:i + size]


# AT&T instruction templates covering the operand forms of C09 (assembled, then disassembled by objdump,
# so what the parser sees is exactly what binutils prints)
REG64 = ["rax", "rbx", "rcx", "rdx", "rsi", "rdi", "rbp", "rsp", "r8", "r9", "r10", "r11", "r12", "r13", "r14", "r15"]
REG32 = ["eax", "ebx", "ecx", "edx", "esi", "edi", "ebp", "esp", "r8d", "r9d", "r10d", "r11d", "r12d", "r13d", "r14d", "r15d"]
REG16 = ["ax", "bx", "cx", "dx", "si", "di", "bp", "sp", "r8w", "r9w", "r10w", "r11w", "r12w", "r13w", "r14w", "r15w"]
REG8 = ["al", "bl", "cl", "dl", "sil", "dil", "bpl", "spl", "r8b", "r9b", "r10b", "r11b", "r12b", "r13b", "r14b", "r15b"]


def template_source(rnd, n, branches=True, extended=False):
    """n random instructions whose operands are drawn from the AT&T forms of C09."""
    out = ["\t.text", "f:"]

    def mem():
        k = rnd.choice(["", "0x8", "-0x8", "0x10", "-0x80", "0x7fffffff", "0x0"])
        a = rnd.choice(REG64)
        if rnd.random() < 0.5:
            b = rnd.choice([r for r in REG64 if r != "rsp"])
            c = rnd.choice([1, 2, 4, 8])
            if rnd.random() < 0.2:
                return f"{k or '0x0'}(,%{b},{c})"
            return f"{k}(%{a},%{b},{c})"
        return f"{k}(%{a})"

    def special():
        r64, r32 = rnd.choice(REG64), rnd.choice(REG32)
        idx = rnd.choice([r for r in REG64 if r != "rsp"])
        z = lambda: f"%zmm{rnd.randrange(32)}"
        return [
            f"\tmov %fs:0x{rnd.randrange(0x600):x}(,%{idx},8),%{r64}",
            f"\tmovq $0x0,%fs:0x{rnd.randrange(0x600):x}(,%{idx},8)",
            f"\tmov %gs:(%{r64},%{idx},2),%{r32}",
            f"\tmov %fs:0x28,%{r64}",
            f"\tvaddps (%{r64},%{idx},4){{1to16}},{z()},{z()}",
            f"\tvmulps 0x40(%{r64}){{1to16}},{z()},{z()}",
            f"\tvmovups {z()},(%{r64},%{idx},1){{%k{rnd.randrange(1, 8)}}}",
            f"\tvmovups {z()},0x40(%{r64}){{%k{rnd.randrange(1, 8)}}}",
            f"\tvaddps {z()},{z()},{z()}{{%k{rnd.randrange(1, 8)}}}{{z}}",
            f"\tvaddps {{rn-sae}},{z()},{z()},{z()}",
            f"\tfadd %st({rnd.randrange(1, 8)}),%st",
            f"\tfxch %st({rnd.randrange(1, 8)})",
            "\tcmpsb",
            "\tmovsq",
            "\trep stosb",
            "\trepz cmpsb",
            f"\tlock cmpxchg %{r64},(%{rnd.choice(REG64)})",
            f"\tlock addl $0x1,0x8(%{r64},%{idx},4)",
            f"\tjmp *0x{rnd.randrange(0x4000):x}(%rip)",
            f"\tcall *%{r64}",
            f"\tcall *0x8(%{r64},%{idx},8)",
            f"\tjmp *0x0(,%{idx},8)",
            f"\tcmp -0x8(%{r64},%{idx},2),%{r32}",
            "\t.byte 0x66,0x66,0x2e,0x0f,0x1f,0x84,0x00,0x00,0x00,0x00,0x00",
            "\tnopw 0x0(%rax,%rax,1)",
            "\txchg %ax,%ax",
            f"\tbnd jmp f+{rnd.randrange(0, 400)}",
            f"\tnotrack jmp *%{r64}",
            "\tendbr64",
            f"\tjne,pn f+{rnd.randrange(0, 100)}" if rnd.random() < 0.05 else "\tpause",
            f"\tvgatherdps (%{r64},%zmm{rnd.randrange(32)},4),{z()}{{%k{rnd.randrange(1, 8)}}}",
            f"\tmovabs $0x{rnd.getrandbits(63):x},%{r64}",
            f"\tljmp *(%{r64})",
            f"\tenter $0x{rnd.randrange(0x100):x},$0x0",
            f"\tout %al,$0x{rnd.randrange(0x100):x}",
            f"\tpextrw $0x{rnd.randrange(8)},%xmm{rnd.randrange(16)},%{r32}",
            # the pseudo index register of a SIB byte without an index
            # (as does not know %riz / %eiz: encoded by hand -- mov disp8(base,%riz,1),%rcx; lea 0x0(%rsi,%riz,1),%rsi;
            #  mov (%eax,%eiz,1),%eax)
            f"\t.byte 0x48,0x8b,0x4c,0x2{rnd.choice([0, 1, 2, 3, 6, 7])},0x{rnd.randrange(1, 0x80):02x}",
            "\t.byte 0x48,0x8d,0x74,0x26,0x00",
            "\t.byte 0x67,0x8b,0x04,0x20",
            # direct branches whose mnemonic fills objdump's six-character mnemonic column
            f"\tloopne .{rnd.choice(['+', '-'])}0x{rnd.randrange(2, 0x70):x}",
            f"\tloope .+0x{rnd.randrange(2, 0x70):x}",
            f"\tjrcxz .+0x{rnd.randrange(2, 0x70):x}",
            f"\txbegin f+{rnd.randrange(0, 4000)}",
            # undecodable bytes for which objdump still prints a memory operand behind `(bad)'
            f"\t.byte 0xdb,0x34,0x{rnd.randrange(0x40):02x}",
        ]

    for _ in range(n):
        kind = rnd.randrange(9)
        if extended and rnd.random() < 0.25:
            out.append(rnd.choice(special()))
            continue
        if kind == 5 and not branches:
            kind = 6
        w = rnd.choice(["q", "l", "w", "b"])
        regs = {"q": REG64, "l": REG32, "w": REG16, "b": REG8}[w]
        if kind == 0:
            out.append(f"\tmov{w} %{rnd.choice(regs)},%{rnd.choice(regs)}")
        elif kind == 1:
            out.append(f"\tmov{w} {mem()},%{rnd.choice(regs)}")
        elif kind == 2:
            out.append(f"\tmov{w} %{rnd.choice(regs)},{mem()}")
        elif kind == 3:
            out.append(f"\tadd{w} ${rnd.choice(['0x1', '0x10', '-0x1', '0x7f'])},{mem()}")
        elif kind == 4:
            out.append(f"\timul ${rnd.choice(['0x3', '0x10'])},{mem()},%{rnd.choice(REG64)}")
        elif kind == 5:
            out.append(f"\t{rnd.choice(['call', 'jmp', 'jne', 'je'])} f+{rnd.randrange(0, 4000)}")
        elif kind == 6:
            out.append(f"\t{rnd.choice(['ret', 'nop', 'leave', 'cltq', 'hlt', 'push $0x10', 'ret $0x8', 'int $0x80', 'push $0x401013', 'bswap %eax'])}")
        elif kind == 7:
            out.append(f"\tlea {mem()},%{rnd.choice(REG64)}")
        else:
            out.append(f"\tshld ${rnd.choice(['0x1', '0x4'])},%{rnd.choice(REG64)},{mem()}")
    if extended:      # every special form at least once
        out.extend(special())
    return "\n".join(out) + "\n"
