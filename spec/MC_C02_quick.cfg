SPECIFICATION Spec
CONSTANTS
  MaxT = 3
  MaxGroupT = 2
  MaxBody = 3
INVARIANT C02_Unroll
CHECK_DEADLOCK FALSE
