INIT Init
NEXT Next
CONSTANT MaxUses = 3
