SPECIFICATION Spec
CONSTANTS
  Scheme = "fixed"
  MaxL = 3
  Part = "times"
INVARIANT CompileRefines
CHECK_DEADLOCK FALSE
