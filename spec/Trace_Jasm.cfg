SPECIFICATION TraceSpec
CONSTANTS
  FinalScan = TRUE
  Scheme = "fixed"
  RuleDocs <- Docs
  Listings <- Lsts
CHECK_DEADLOCK FALSE
