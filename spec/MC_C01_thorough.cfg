SPECIFICATION Spec
CONSTANTS
  MaxItems = 2
  MaxListing = 2
  PMn <- T_PMn
  POps <- T_POps
  LMn <- T_LMn
  LOps <- T_LOps
INVARIANT C01_Literal
CHECK_DEADLOCK FALSE
