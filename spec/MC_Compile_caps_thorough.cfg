SPECIFICATION Spec
CONSTANTS
  Scheme = "fixed"
  MaxL = 3
  Part = "caps"
INVARIANT CompileRefines
CHECK_DEADLOCK FALSE
