----------------------------- MODULE Export_C13 -----------------------------
EXTENDS U_C13, Json, IOUtils
ASSUME JsonSerialize(IOEnv.JASM_OUT, Universe)
VARIABLE x
Init == x = 0
Next == x' = x
=============================================================================
