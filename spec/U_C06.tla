------------------------------- MODULE U_C06 -------------------------------
(***************************************************************************)
(* Universe of C06: $deref patterns with every combination of present      *)
(* fields, registers with and without %, constants with and without 0x,    *)
(* against instructions whose operands are AT&T memory references of the   *)
(* same shape, of every one-component mutation, of other shapes, registers *)
(* and immediates -- printed as objdump prints them (k(a,b,c)), so that    *)
(* the operand normaliser and the compiled $deref are both in the loop.    *)
(***************************************************************************)
EXTENDS JasmPattern, JasmObjdump, SequencesExt
CONSTANTS PBase, PIndex, PDisp, OBase, OIndex, ODisp

DField(n, v) == Node("dfield", n, <<Node("flit", v, <<>>, 1, 1)>>, 1, 1)
DerefOf(a, bc, k) ==
    Node("deref", "", <<DField("main_reg", a)>>
                      \o (IF bc = <<>> THEN <<>>
                          ELSE IF bc[2] = "" THEN <<DField("register_multiplier", bc[1])>>     \* an index without a scale
                          ELSE <<DField("register_multiplier", bc[1]), DField("constant_multiplier", bc[2])>>)
                      \o (IF k = "" THEN <<>> ELSE <<DField("constant_offset", k)>>), 1, 1)
Derefs == { DerefOf(a, bc, k) : a \in PBase, bc \in PIndex, k \in PDisp }
Patterns == { PAnd(<<PIns("mov", <<d>>)>>) : d \in Derefs }
       \cup { PAnd(<<PIns("mov", <<OLit("rax"), d>>)>>) : d \in Derefs }

MemOps == { Mem(k, a, bc[1], bc[2]) : k \in ODisp, a \in OBase, bc \in OIndex }
OtherOps == { Reg("%rax"), Reg("%r8"), Imm("0x8"), Mem("0x8", "", "%rbx", "4") }
Lines == { InsnLine("401000", <<"90">>, "mov", <<o, Reg("%rcx")>>) : o \in MemOps \cup OtherOps }
    \cup { InsnLine("401000", <<"90">>, "mov", <<Reg("%rax"), o>>) : o \in MemOps \cup OtherOps }
LineSeq == SetToSeq(Lines)

\* tier constants
Q_PBase == {"rax", "%rax", "r8"}
\* (%riz / %eiz: the pseudo index register objdump prints for a SIB byte without an index -- an index like any other)
Q_PIndex == {<<>>, <<"rbx", "4">>, <<"%r8", "1">>, <<"rbx", "">>, <<"riz", "1">>}
\* (a displacement whose leading hex digit is a letter, written with and without 0x)
Q_PDisp == {"", "0x8", "8", "-0x8", "0x0", "0", "a8", "0xa8"}
Q_OBase == {"%rax", "%r8", "%r8d"}
Q_OIndex == {<<"", "">>, <<"%rbx", "4">>, <<"%r8", "1">>, <<"%rbx", "8">>, <<"%rax", "4">>, <<"%rbx", "1">>, <<"%riz", "1">>}
Q_ODisp == {"", "0x8", "-0x8", "0x80", "0x0", "0xa8"}
T_PBase == {"rax", "%rax", "r8", "%r8d", "rbx"}
T_PIndex == {<<>>, <<"rbx", "">>, <<"rbx", "4">>, <<"%r8", "1">>, <<"rbx", "8">>, <<"%rbx", "0x4">>, <<"rax", "2">>, <<"riz", "1">>, <<"%eiz", "1">>}
T_PDisp == {"", "0x8", "8", "-0x8", "0x0", "0x80", "0", "a8", "0xa8", "ff"}
T_OBase == {"%rax", "%r8", "%r8d", "%rbx", "%eax"}
T_OIndex == {<<"", "">>, <<"%rbx", "4">>, <<"%r8", "1">>, <<"%rbx", "8">>, <<"%rax", "4">>, <<"%rbx", "1">>, <<"%rax", "2">>, <<"%r8", "4">>, <<"%riz", "1">>, <<"%eiz", "1">>, <<"%riz", "2">>}
T_ODisp == {"", "0x8", "-0x8", "0x80", "0x0", "0x18", "0x88", "0xa8", "0xff"}

\* ---- operands with a segment override -------------------------------------------------------------------
\* C09 does not fix a normal form for `%fs:0x8(%rax)', so these cases are judged on the operand text the code
\* itself put into the stream (Trace_Match, obs): whatever that text is, it carries the segment as an extra
\* component, and a $deref without that component must not match it (C06: "no operand with an extra component")
SegLines == { InsnLine("401000", <<"90">>, "mov", <<Mem("%fs:0x8", "%rax", "", ""), Reg("%ecx")>>),
              InsnLine("401000", <<"90">>, "mov", <<Mem("0x8", "%rax", "", ""), Reg("%ecx")>>),
              InsnLine("401000", <<"90">>, "scas", <<Mem("%es:", "%rdi", "", ""), Reg("%al")>>),
              InsnLine("401000", <<"90">>, "scas", <<Mem("", "%rdi", "", ""), Reg("%al")>>),
              InsnLine("401000", <<"90">>, "stos", <<Reg("%al"), Mem("%es:", "%rdi", "", "")>>),
              InsnLine("401000", <<"90">>, "mov", <<Mem("%gs:", "%rax", "%rbx", "8"), Reg("%rcx")>>),
              InsnLine("401000", <<"90">>, "mov", <<Mem("", "%rax", "%rbx", "8"), Reg("%rcx")>>),
              InsnLine("401000", <<"90">>, "mov", <<Mem("%fs:0x10", "%rax", "%rbx", "4"), Reg("%ecx")>>),
              InsnLine("401000", <<"90">>, "mov", <<Mem("0x10", "%rax", "%rbx", "4"), Reg("%ecx")>>) }
SegSeq == SetToSeq(SegLines)
SegDerefs == { DerefOf("rax", <<>>, "0x8"), DerefOf("rdi", <<>>, ""), DerefOf("rax", <<"rbx", "8">>, ""), DerefOf("rax", <<"rbx", "4">>, "0x10") }
PatternsS == { PAnd(<<PIns(m, <<d>>)>>) : m \in {"mov", "scas"}, d \in SegDerefs }
        \cup { PAnd(<<PIns("stos", <<OLit("al"), d>>)>>) : d \in SegDerefs }
UniverseS == [patterns |-> SetToSeq(PatternsS),
              listings |-> [n \in DOMAIN SegSeq |-> Stream(<<SegSeq[n]>>)],
              texts    |-> [n \in DOMAIN SegSeq |-> ListingLines(<<SegSeq[n]>>)]]
Universe == [patterns |-> SetToSeq(Patterns),
             listings |-> [n \in DOMAIN LineSeq |-> Stream(<<LineSeq[n]>>)],
             texts    |-> [n \in DOMAIN LineSeq |-> ListingLines(<<LineSeq[n]>>)]]
=============================================================================
