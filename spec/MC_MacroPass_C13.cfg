SPECIFICATION Spec
CONSTANTS
  FinalScan = TRUE
  Which = "C13"
INVARIANT C19_NoneKept
INVARIANT C13_WhenSupported
CHECK_DEADLOCK FALSE
