SPECIFICATION Spec
CONSTANTS
  Ranges <- T_Ranges
  Targets <- T_Targets
  MaxDigits = 4
INVARIANT C18_Design
CHECK_DEADLOCK FALSE
