------------------------------- MODULE U_C07 -------------------------------
(***************************************************************************)
(* Universe of C07: every operator in leading position, items with fewer,  *)
(* as many and more operand patterns than the instruction has operands     *)
(* (down to operand-less instructions), with and without the shipped @any  *)
(* wildcard; addresses are lower-case hexadecimal of 1 to 7 digits and     *)
(* include words that are also mnemonics.                                   *)
(***************************************************************************)
EXTENDS JasmUniverse, JasmObjdump
CONSTANTS MaxListing

I(m) == PIns(m, <<>>)
X == OLit("x")  Y == OLit("y")
Leading == { I("a"), PIns("a", <<X>>), PIns("a", <<X, Y>>), PIns("a", <<X, Y, X>>),
             POr(<<I("a"), I("b")>>), PNot(I("a")), PPerm(<<I("a"), I("b")>>), PAnd(<<I("a"), I("b")>>),
             PICap("i"), WithTimes(I("a"), 1, 2), WithTimes(PNot(I("a")), 1, 2),
             WithTimes(POr(<<I("a"), I("b")>>), 2, 2),
             PIns("m", <<ONot(X)>>), PIns("m", <<OCap("o")>>), PIns("m", <<OOr(<<X, Y>>), X>>) }
PatternsP == { PAnd(<<g>>) : g \in Leading } \cup { PAnd(<<g, I("q")>>) : g \in Leading }
             \cup { PAnd(<<PICap("i"), PICap("i")>>) }
BodiesP == { <<"a", <<>> >>, <<"a", <<"x">> >>, <<"a", <<"x", "y">> >>, <<"b", <<>> >>, <<"q", <<>> >>,
             <<"m", <<"x">> >>, <<"m", <<"y", "x">> >> }
ListingsP == ListingsOver(BodiesP, 0, MaxListing)

A == OLit(AnyName)
PatternsA == { PAnd(<<PIns(AnyName, <<>>)>>), PAnd(<<PIns("a", <<A>>)>>), PAnd(<<PIns("a", <<X, A>>)>>),
               PAnd(<<PIns("a", <<A, A>>)>>),
               PAnd(<<PIns("a", <<A>>), I("q")>>), PAnd(<<PIns(AnyName, <<>>), I("q")>>),
               PAnd(<<PIns("a", <<A, Y>>)>>), PAnd(<<PInsT(AnyName, <<>>, 2, 2)>>),
               PAnd(<<PIns("a", <<X, Y, A>>), I("q")>>) }
ListingsA == ListingsP

\* listings as objdump prints them, with instructions longer than 7 bytes (byte-continuation lines), labels and
\* annotations BEFORE the match: the reported address must still be the first covered instruction's
B7 == <<"48", "b8", "88", "77", "66", "55", "44">>
LongI(a) == InsnLine(a, B7, "movabs", <<Imm("0x1122334455667788"), Reg("%rax")>>)
TextBlocks == { <<LongI("401000"), ContLine("401007", <<"33", "22", "11">>)>>,
                <<InsnLine("40100a", <<"55">>, "push", <<Reg("%rbp")>>)>>,
                <<[InsnLine("40100b", <<"e8", "10", "00", "00", "00">>, "call", <<Target("401020")>>) EXCEPT !.sym = "g"]>>,
                <<LabelLine("000000000040100a", "f")>>,
                <<LongI("401010"), ContLine("401017", <<"33", "22", "11">>), InsnLine("40101a", <<"c3">>, "ret", <<>>)>> }
RECURSIVE FlatT(_)
FlatT(ss) == IF ss = <<>> THEN <<>> ELSE Head(ss) \o FlatT(Tail(ss))
TextListings == { FlatT(s) : s \in SeqsBetween(TextBlocks, 1, 3) }
TextSeq == SetToSeq(TextListings)
PatternsT == { PAnd(<<I("push")>>), PAnd(<<I("call")>>), PAnd(<<I("push"), I("call")>>), PAnd(<<I("ret")>>), PAnd(<<PNot(I("movabs")), I("call")>>) }
UniverseT == [patterns |-> SetToSeq(PatternsT),
              listings |-> [n \in DOMAIN TextSeq |-> Stream(TextSeq[n])],
              texts    |-> [n \in DOMAIN TextSeq |-> ListingLines(TextSeq[n])]]
UniverseP == [patterns |-> SetToSeq(PatternsP), listings |-> SetToSeq(ListingsP)]
UniverseA == [patterns |-> SetToSeq(PatternsA), listings |-> SetToSeq(ListingsA)]
=============================================================================
