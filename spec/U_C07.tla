------------------------------- MODULE U_C07 -------------------------------
(***************************************************************************)
(* Universe of C07: every operator in leading position, items with fewer,  *)
(* as many and more operand patterns than the instruction has operands     *)
(* (down to operand-less instructions), with and without the shipped @any  *)
(* wildcard; addresses are lower-case hexadecimal of 1 to 7 digits and     *)
(* include words that are also mnemonics.                                   *)
(***************************************************************************)
EXTENDS JasmUniverse
CONSTANTS MaxListing

I(m) == PIns(m, <<>>)
X == OLit("x")  Y == OLit("y")
Leading == { I("a"), PIns("a", <<X>>), PIns("a", <<X, Y>>), PIns("a", <<X, Y, X>>),
             POr(<<I("a"), I("b")>>), PNot(I("a")), PPerm(<<I("a"), I("b")>>), PAnd(<<I("a"), I("b")>>),
             PICap("i"), WithTimes(I("a"), 1, 2), WithTimes(PNot(I("a")), 1, 2),
             WithTimes(POr(<<I("a"), I("b")>>), 2, 2),
             PIns("m", <<ONot(X)>>), PIns("m", <<OCap("o")>>), PIns("m", <<OOr(<<X, Y>>), X>>) }
PatternsP == { PAnd(<<g>>) : g \in Leading } \cup { PAnd(<<g, I("q")>>) : g \in Leading }
             \cup { PAnd(<<PICap("i"), PICap("i")>>) }
BodiesP == { <<"a", <<>> >>, <<"a", <<"x">> >>, <<"a", <<"x", "y">> >>, <<"b", <<>> >>, <<"q", <<>> >>,
             <<"m", <<"x">> >>, <<"m", <<"y", "x">> >> }
ListingsP == ListingsOver(BodiesP, 0, MaxListing)

A == OLit(AnyName)
PatternsA == { PAnd(<<PIns(AnyName, <<>>)>>), PAnd(<<PIns("a", <<A>>)>>), PAnd(<<PIns("a", <<X, A>>)>>),
               PAnd(<<PIns("a", <<A, A>>)>>),
               PAnd(<<PIns("a", <<A>>), I("q")>>), PAnd(<<PIns(AnyName, <<>>), I("q")>>),
               PAnd(<<PIns("a", <<A, Y>>)>>), PAnd(<<PInsT(AnyName, <<>>, 2, 2)>>),
               PAnd(<<PIns("a", <<X, Y, A>>), I("q")>>) }
ListingsA == ListingsP

UniverseP == [patterns |-> SetToSeq(PatternsP), listings |-> SetToSeq(ListingsP)]
UniverseA == [patterns |-> SetToSeq(PatternsA), listings |-> SetToSeq(ListingsA)]
=============================================================================
