INIT Init
NEXT Next
CONSTANTS
  MaxItems = 2
  MaxListing = 2
  PMn <- Q_PMn
  POps <- Q_POps
  LMn <- Q_LMn
  LOps <- Q_LOps
