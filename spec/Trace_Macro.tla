----------------------------- MODULE Trace_Macro -----------------------------
(***************************************************************************)
(* Trace validation for C13 and C19.  A case is one rule document with its *)
(* macro definitions; the trace holds what the real compiler did with it   *)
(* and with the manually inlined document that InlineRef (JasmMacro)        *)
(* computed: outcome, compiled matcher text, and -- where the two matcher   *)
(* texts differ -- whether the two rules behave alike on a listing         *)
(* universe.  For C19 the specification says whether the document must be   *)
(* rejected (MustFail) and which names an error has to mention.            *)
(***************************************************************************)
EXTENDS JasmMacro, Json, IOUtils, TLC
Cases == JsonDeserialize(IOEnv.JASM_CASES).cases
VARIABLES idx, verdict

CheckC13(c) ==
    IF c.inl_outcome # "ok" THEN "rej:MACHINERY_InlinedRuleFailed"
    ELSE IF c.mac_outcome # "ok" THEN "rej:C13_MacroRuleFailed"
    ELSE IF c.mac_regex = c.inl_regex THEN "ok"
    ELSE IF c.behaviour = "same" THEN "ok:behaviour"
    ELSE IF c.behaviour = "different" THEN "rej:C13_DifferentMatcher"
    ELSE "need:behaviour"

\* C19: c.must_fail and c.names come from the specification (MustFail, Unresolved \cup BadMacroNames)
CheckC19(c) ==
    IF c.must_fail THEN
        (IF c.mac_outcome = "ok" THEN
             (IF IsInfixStr("@", c.mac_regex) THEN "rej:C19_SilentlyKept" ELSE "rej:C19_NotReported")
         ELSE IF \E n \in DOMAIN c.names : IsInfixStr(c.names[n], c.mac_exc) THEN "ok:reported"
         ELSE "rej:C19_ErrorDoesNotNameIt")
    ELSE \* every reference has a definition: expanded, or (unsupported use form) reported -- never kept
        (IF c.mac_outcome # "ok" THEN "ok:rejected"
         ELSE IF IsInfixStr("@", c.mac_regex) THEN "rej:C19_SilentlyKept"
         ELSE IF c.inl_outcome = "ok" /\ c.mac_regex # c.inl_regex /\ c.behaviour = "different" THEN "rej:C19_ExpandedWrongly"
         ELSE IF c.inl_outcome = "ok" /\ c.mac_regex # c.inl_regex /\ c.behaviour = "" THEN "need:behaviour"
         ELSE "ok:expanded")

Check(c) == IF c.prop = "C13" THEN CheckC13(c) ELSE CheckC19(c)
Init == idx \in DOMAIN Cases /\ verdict = "?"
Next == verdict = "?" /\ verdict' = Check(Cases[idx]) /\ UNCHANGED idx
Spec == Init /\ [][Next]_<<idx, verdict>>
=============================================================================
