----------------------------- MODULE Export_C17 -----------------------------
EXTENDS JasmOperation, Json, IOUtils, SequencesExt
ASSUME JsonSerialize(IOEnv.JASM_OUT, [placements |-> SetToSeq(Placements)])
=============================================================================
