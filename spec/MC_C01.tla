------------------------------- MODULE MC_C01 -------------------------------
(***************************************************************************)
(* Design-level check of C01: on the whole universe, the general recursive *)
(* matcher agrees with the literal wording of the property, and a match is *)
(* independent of everything outside its window (other instructions,       *)
(* further operands, addresses).                                           *)
(***************************************************************************)
EXTENDS U_C01
VARIABLES p, l, f, res
vars == <<p, l, f, res>>

ItemHolds(it, ins, mfm, ofm) ==
    /\ NameHolds(it.name, ins.mn, mfm)
    /\ \A k \in DOMAIN it.kids : k <= Len(ins.ops) /\ NameHolds(it.kids[k].name, ins.ops[k], ofm)
WindowAt(P, L, i, mfm, ofm) ==
    /\ i + Len(P.kids) - 1 <= Len(L)
    /\ \A t \in DOMAIN P.kids : ItemHolds(P.kids[t], L[i + t - 1], mfm, ofm)
Literal(P, L, mfm, ofm) == \E i \in 1..Len(L) : WindowAt(P, L, i, mfm, ofm)

\* everything outside the window [i, j) replaced, every address changed, one more operand everywhere
Perturb(L, i, j) ==
    [n \in DOMAIN L |->
        IF n >= i /\ n < j THEN Ins(L[n].addr \o "f", L[n].mn, L[n].ops \o <<"zz">>)
        ELSE Ins("0", "zzz", <<>>)]

Holds(P, L, mfm, ofm) ==
    LET cx == Cx(L, mfm, ofm) IN
    /\ Found(P, cx) <=> Literal(P, L, mfm, ofm)
    /\ \A sp \in Spans(P, cx) :
          /\ sp[2] = sp[1] + Len(P.kids)
          /\ WindowAt(P, L, sp[1], mfm, ofm)
          /\ sp \in Spans(P, Cx(Perturb(L, sp[1], sp[2]), mfm, ofm))

Init == p \in Patterns /\ l \in Listings /\ f \in BOOLEAN \X BOOLEAN /\ res = "?"
Next == res = "?" /\ res' = (IF Holds(p, l, f[1], f[2]) THEN "ok" ELSE "bad") /\ UNCHANGED <<p, l, f>>
Spec == Init /\ [][Next]_vars
C01_Literal == res # "bad"
=============================================================================
