INIT Init
NEXT Next
CONSTANTS
  Ranges <- T_Ranges
  Targets <- T_Targets
