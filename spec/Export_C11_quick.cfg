INIT Init
NEXT Next
CONSTANTS
  MaxListing = 6
