----------------------------- MODULE Export_C07 -----------------------------
EXTENDS U_C07, Json, IOUtils
UR == INSTANCE U_Range
ASSUME JsonSerialize(IOEnv.JASM_OUT, [p |-> UniverseP, a |-> UniverseA, t |-> UniverseT, r |-> UR!UniverseRange])
VARIABLE x
Init == x = 0
Next == x' = x
=============================================================================
