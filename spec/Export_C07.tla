----------------------------- MODULE Export_C07 -----------------------------
EXTENDS U_C07, Json, IOUtils
ASSUME JsonSerialize(IOEnv.JASM_OUT, [p |-> UniverseP, a |-> UniverseA, t |-> UniverseT])
VARIABLE x
Init == x = 0
Next == x' = x
=============================================================================
