SPECIFICATION Spec
CONSTANTS
  Scheme = "pinned"
  MaxL = 2
  Part = "times"
INVARIANT CompileRefines
CHECK_DEADLOCK FALSE
