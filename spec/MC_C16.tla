------------------------------- MODULE MC_C16 -------------------------------
(***************************************************************************)
(* C16 as a state machine: the state is a listing; every action is one of   *)
(* the presentation edits the property names (symbol labels, <sym+off>      *)
(* annotations, # comments, blank lines, section headers, the file-format   *)
(* header, indentation, the raw-byte column incl. continuation lines,       *)
(* `...' elisions, trailing blanks).  TLC checks the action property that   *)
(* no edit changes Stream(listing), for every sequence of up to MaxEdits    *)
(* edits of every base listing.  The reachable states (with the text TLC    *)
(* prints for them) are replayed into the real parser by ./check C16.       *)
(***************************************************************************)
EXTENDS JasmObjdump
CONSTANTS MaxEdits, MaxLen
VARIABLES listing, text, stream, nedits
vars == <<listing, text, stream, nedits>>

I1 == InsnLine("401000", <<"55">>, "push", <<Reg("%rbp")>>)
I2 == InsnLine("401001", <<"e8", "1a", "00", "00", "00">>, "call", <<Target("401020")>>)
I3 == InsnLine("401006", <<"48", "8b", "05", "f3", "2f", "00", "00">>, "mov", <<Mem("0x2ff3", "%rip", "", ""), Reg("%rax")>>)
I4 == InsnLine("40100d", <<"c3">>, "ret", <<>>)
I5 == InsnLine("40100e", <<"48", "c7", "84", "24", "a0", "00", "00">>, "movq", <<Imm("0x0"), Mem("0xa0", "%rsp", "", "")>>)
\* an indirect call through a %rip-relative slot, as objdump prints it with the slot's address in a # comment
I6 == [InsnLine("401015", <<"ff", "15", "d5", "2f", "00", "00">>, "call", <<Mem("*0x2fd5", "%rip", "", "")>>) EXCEPT !.comment = "403ff0 <puts@GLIBC_2.2.5>"]
Bases == { <<I1, I2, I4>>, <<I3, I4, I1>>, <<I5, I2>>, <<I6, I4>> }

Positions == 1..(Len(listing) + 1)
Lines == DOMAIN listing
Fresh(l) == Len(listing) < MaxLen

Ins_(n, l) == listing' = LInsertAt(listing, n, l)
Del_(n)    == listing' = LRemoveAt(listing, n)
Set_(n, l) == listing' = [listing EXCEPT ![n] = l]

AddLabel(n)   == Fresh(0) /\ Ins_(n, LabelLine("0000000000401000", "main"))
AddBlank(n)   == Fresh(0) /\ Ins_(n, BlankLine)
AddSection(n) == Fresh(0) /\ \E nm \in {".text", ".init"} : Ins_(n, SectionLine(nm))
AddHeader(n)  == Fresh(0) /\ \E h \in {"a.out:     file format elf64-x86-64", "blob.bin:     file format binary",
                                            "x.o:     file format elf32-iamcu"} : Ins_(n, HeaderLine(h))
AddEllipsis(n) == Fresh(0) /\ Ins_(n, EllipsisLine)
DropDecoration(n) == listing[n].kind \in {"label", "blank", "section", "header", "ellipsis"} /\ Del_(n)
SetSym(n, s)  == IsInsn(listing[n]) /\ listing[n].ops # <<>> /\ listing[n].sym # s /\ Set_(n, [listing[n] EXCEPT !.sym = s])
SetComment(n, c) == IsInsn(listing[n]) /\ listing[n].ops # <<>> /\ listing[n].comment # c
                    /\ Set_(n, [listing[n] EXCEPT !.comment = c])
SetIndent(n, k) == listing[n].kind \in {"insn", "cont"} /\ listing[n].indent # k /\ Set_(n, [listing[n] EXCEPT !.indent = k])
SetBytes(n, bs) == IsInsn(listing[n]) /\ listing[n].bytes # bs /\ Set_(n, [listing[n] EXCEPT !.bytes = bs])
SetTail(n, k) == IsInsn(listing[n]) /\ listing[n].ops = <<>> /\ listing[n].tail # k /\ Set_(n, [listing[n] EXCEPT !.tail = k])
\* the raw bytes of a long instruction spill onto a continuation line, or stop doing so (objdump -w)
AddCont(n)  == Fresh(0) /\ n > 1 /\ IsInsn(listing[n - 1]) /\ Ins_(n, ContLine(listing[n - 1].addr, <<"00", "00", "00", "00", "00">>))
DropCont(n) == listing[n].kind = "cont" /\ Del_(n)

Edit ==
    \/ \E n \in Positions : AddLabel(n) \/ AddBlank(n) \/ AddSection(n) \/ AddHeader(n) \/ AddEllipsis(n) \/ AddCont(n)
    \/ \E n \in Lines : DropDecoration(n) \/ DropCont(n)
    \/ \E n \in Lines : \E s \in {"", "foo", "bar+0x10"} : SetSym(n, s)
    \/ \E n \in Lines : \E c \in {"", "404000 <x>"} : SetComment(n, c)
    \/ \E n \in Lines : \E k \in {0, 2, 5} : SetIndent(n, k)
    \/ \E n \in Lines : \E bs \in {<<"90">>, <<"0f", "1f", "00">>, <<"66", "2e", "0f", "1f", "84", "00", "00">>} : SetBytes(n, bs)
    \/ \E n \in Lines : \E k \in {0, 4} : SetTail(n, k)

Init == /\ listing \in Bases
        /\ text = ListingLines(listing)
        /\ stream = Stream(listing)
        /\ nedits = 0
Next == /\ nedits < MaxEdits
        /\ Edit
        /\ nedits' = nedits + 1
        /\ text' = ListingLines(listing')
        /\ stream' = Stream(listing')
Spec == Init /\ [][Next]_vars

\* C16: no presentation edit changes the instruction stream
C16_EditKeepsStream == [][stream' = stream]_vars
\* the history variables are what they claim to be
Derived == text = ListingLines(listing) /\ stream = Stream(listing)
=============================================================================
