----------------------------- MODULE Trace_Modes -----------------------------
(***************************************************************************)
(* C12 on the raw results, with no reference to the pattern semantics (so  *)
(* it also applies to patterns that can match the empty sequence and to    *)
(* listings in which an address occurs twice): for one rule and one input, *)
(*   first-match list   = one-element prefix of the all-matches list       *)
(*   address-only lists = element by element, the address that prefixes    *)
(*                        the full matched text (the text up to "::")      *)
(*   every boolean      = (all-matches list is non-empty)                  *)
(***************************************************************************)
EXTENDS JasmText, Json, IOUtils
Cases == JsonDeserialize(IOEnv.JASM_CASES).cases
VARIABLES idx, verdict
AddrPrefix(t) == LET p == FindFrom("::", t, 1) IN IF p = 0 THEN t ELSE SubSeq(t, 1, p - 1)
Check(c) ==
    IF c.outcome # "ok" THEN "rej:NoError"
    ELSE IF c.first_raw # SubSeq(c.all_raw, 1, IF c.all_raw = <<>> THEN 0 ELSE 1) THEN "rej:C12_FirstPrefix"
    ELSE IF Len(c.all_addr) # Len(c.all_raw) \/ Len(c.first_addr) # Len(c.first_raw) THEN "rej:C12_AddrCount"
    ELSE IF \E n \in DOMAIN c.all_raw : c.all_addr[n] # AddrPrefix(c.all_raw[n]) THEN "rej:C12_AddrAll"
    ELSE IF \E n \in DOMAIN c.first_raw : c.first_addr[n] # AddrPrefix(c.first_raw[n]) THEN "rej:C12_AddrFirst"
    ELSE IF \E b \in DOMAIN c.bools : c.bools[b] # (c.all_raw # <<>>) THEN "rej:C12_Bool"
    ELSE IF c.all_raw # <<>> THEN "ok:F" ELSE "ok:N"
Init == idx \in DOMAIN Cases /\ verdict = "?"
Next == verdict = "?" /\ verdict' = Check(Cases[idx]) /\ UNCHANGED idx
Spec == Init /\ [][Next]_<<idx, verdict>>
=============================================================================
