------------------------------ MODULE JasmKnown ------------------------------
(***************************************************************************)
(* Deviation predicates: the input classes of the recorded known findings  *)
(* (known_findings.json), as predicates over the abstract case.  A trace   *)
(* that the specification rejects is attributed to a known finding only if *)
(* the predicate named by the finding's tag holds for that case; anything  *)
(* else remains a VIOLATION.                                               *)
(***************************************************************************)
EXTENDS JasmPattern

RECURSIVE InsNodes(_)
InsNodes(p) == (IF p.k = "ins" THEN {p} ELSE {})
               \cup UNION { InsNodes(p.kids[n]) : n \in DOMAIN p.kids }

\* F8: the shipped @any is defined as [^, ]{1,1000}; as the k-th operand (k >= 2) of
\* an item it also "matches" across the end of an instruction that has only k-1 operands
KD_AnyPastEnd(P, L) ==
    \E it \in InsNodes(P) : \E k \in DOMAIN it.kids :
        /\ k >= 2 /\ it.kids[k].k = "lit" /\ it.kids[k].name = AnyName
        /\ \E n \in DOMAIN L : Len(L[n].ops) = k - 1 /\ NameHolds(it.name, L[n].mn, FALSE)

Tags(P, L) == IF KD_AnyPastEnd(P, L) THEN "|KD_AnyPastEnd" ELSE ""
=============================================================================
