----------------------------- MODULE JasmObserve -----------------------------
(***************************************************************************)
(* The observer chain between the parser and the stream: removal of        *)
(* padding pseudo-instructions and the valid_addr_range tagging (C18).     *)
(*                                                                         *)
(* C18 fixes what MUST be tagged (direct call / jmp with the target in the *)
(* range) and what must NEVER be (target outside, indirect branch, any     *)
(* non-branch).  Other direct branches with the target in range (jne,      *)
(* callq, loop ...) MAY be tagged: the property does not decide them.      *)
(***************************************************************************)
EXTENDS JasmText

TagOperand == "valid_addr"
InRange(t, lo, hi) == HexLE(lo, t) /\ HexLE(t, hi)
IsDirectTarget(o) == IsHexNumeral(o)
IsIndirect(o) == HasChar(o, "*")
IsBranchMn(m) == IsPrefixStr("j", m) \/ IsPrefixStr("call", m) \/ IsPrefixStr("loop", m)
MustTag(i, lo, hi) == /\ i.mn \in {"call", "jmp"}
                      /\ i.ops # <<>> /\ IsDirectTarget(i.ops[1]) /\ InRange(i.ops[1], lo, hi)
MayTag(i, lo, hi)  == /\ IsBranchMn(i.mn)
                      /\ i.ops # <<>> /\ IsDirectTarget(i.ops[1]) /\ InRange(i.ops[1], lo, hi)
Tagged(i) == [i EXCEPT !.ops = <<TagOperand>>]

\* o is an allowed image of instruction i under the range lo..hi
AllowedImage(i, o, lo, hi) ==
    IF MustTag(i, lo, hi) THEN o = Tagged(i)
    ELSE IF MayTag(i, lo, hi) THEN o = Tagged(i) \/ o = i
    ELSE o = i
\* number, order and addresses unaffected; untagged instructions keep their operands
AllowedTagging(L, O, lo, hi) ==
    Len(O) = Len(L) /\ \A n \in DOMAIN L : AllowedImage(L[n], O[n], lo, hi)
\* the canonical tagging (only what must be tagged)
TagListing(L, lo, hi) == [n \in DOMAIN L |-> IF MustTag(L[n], lo, hi) THEN Tagged(L[n]) ELSE L[n]]

\* padding lines (raw bytes only) give a pseudo instruction "empty" that is dropped
RemoveEmpty(L) == SelectSeq(L, LAMBDA i : i.mn # "empty")
=============================================================================
