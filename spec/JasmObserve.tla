----------------------------- MODULE JasmObserve -----------------------------
(***************************************************************************)
(* The observer chain between the parser and the stream: removal of        *)
(* padding pseudo-instructions and the valid_addr_range tagging (C18).     *)
(*                                                                         *)
(* C18 fixes what MUST be tagged (direct call / jmp with the target in the *)
(* range) and what must NEVER be (target outside, indirect branch, any     *)
(* non-branch).  Other direct branches with the target in range (jne,      *)
(* callq, loop ...) MAY be tagged: the property does not decide them.      *)
(***************************************************************************)
EXTENDS JasmText

TagOperand == "valid_addr"
InRange(t, lo, hi) == HexLE(lo, t) /\ HexLE(t, hi)
IsDirectTarget(o) == IsHexNumeral(o)
IsIndirect(o) == HasChar(o, "*")
IsBranchMn(m) == IsPrefixStr("j", m) \/ IsPrefixStr("call", m) \/ IsPrefixStr("loop", m)
MustTag(i, lo, hi) == /\ i.mn \in {"call", "jmp"}
                      /\ i.ops # <<>> /\ IsDirectTarget(i.ops[1]) /\ InRange(i.ops[1], lo, hi)
MayTag(i, lo, hi)  == /\ IsBranchMn(i.mn)
                      /\ i.ops # <<>> /\ IsDirectTarget(i.ops[1]) /\ InRange(i.ops[1], lo, hi)
Tagged(i) == [i EXCEPT !.ops = <<TagOperand>>]

\* o is an allowed image of instruction i under the range lo..hi
AllowedImage(i, o, lo, hi) ==
    IF MustTag(i, lo, hi) THEN o = Tagged(i)
    ELSE IF MayTag(i, lo, hi) THEN o = Tagged(i) \/ o = i
    ELSE o = i
\* number, order and addresses unaffected; untagged instructions keep their operands
AllowedTagging(L, O, lo, hi) ==
    Len(O) = Len(L) /\ \A n \in DOMAIN L : AllowedImage(L[n], O[n], lo, hi)
\* the canonical tagging (only what must be tagged)
TagListing(L, lo, hi) == [n \in DOMAIN L |-> IF MustTag(L[n], lo, hi) THEN Tagged(L[n]) ELSE L[n]]

\* padding lines (raw bytes only) give a pseudo instruction "empty" that is dropped
RemoveEmpty(L) == SelectSeq(L, LAMBDA i : i.mn # "empty")

(***************************************************************************)
(* The observer chain as implemented (consumer._process_instruction): every *)
(* observer is handed the ORIGINAL instruction, the result is the last      *)
(* observer's, and a None stops the chain -- versus the chain as a          *)
(* composition of partial functions.  For the shipped chain <<RemoveEmpty,  *)
(* ValidAddr>> the two coincide (RemoveEmpty is a filter); with two         *)
(* transforming observers they would not (MC_C18 exhibits it as a control). *)
(***************************************************************************)
Dropped == Ins("", "", <<>>)
ObsRemoveEmpty(i) == IF i.mn = "empty" THEN Dropped ELSE i
ObsApply(o, i) ==      \* o = <<"empty">> | <<"valid", lo, hi>> | <<"upper">> (a hypothetical second transformer)
    CASE o[1] = "empty" -> ObsRemoveEmpty(i)
      [] o[1] = "valid" -> IF MustTag(i, o[2], o[3]) THEN Tagged(i) ELSE i
      [] OTHER          -> [i EXCEPT !.mn = i.mn \o "'"]
RECURSIVE ChainImpl(_, _, _), ChainComposed(_, _)
ChainImpl(obs, orig, acc) ==          \* acc: result so far
    IF obs = <<>> THEN acc
    ELSE LET r == ObsApply(Head(obs), orig) IN IF r = Dropped THEN Dropped ELSE ChainImpl(Tail(obs), orig, r)
ChainComposed(obs, i) ==
    IF obs = <<>> THEN i
    ELSE LET r == ObsApply(Head(obs), i) IN IF r = Dropped THEN Dropped ELSE ChainComposed(Tail(obs), r)
=============================================================================
