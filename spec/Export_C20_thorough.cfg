INIT Init
NEXT Next
CONSTANT Pairs = {"found", "many", "none", "fail", "macro", "binfound", "dup", "range", "wrongkind", "notalisting", "long", "crowd"}
