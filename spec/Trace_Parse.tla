---------------------------- MODULE Trace_Parse ----------------------------
(***************************************************************************)
(* Trace validation of the listing -> stream step (C08, C09, C10, C16).    *)
(*                                                                         *)
(* A case carries the listing text the real parser was given (lines), what *)
(* it returned in the stream mode (or that it raised), and, in the spec -> *)
(* code direction, the abstract listing the text was printed from.         *)
(*                                                                         *)
(*  mode "abs"   the text was printed by LineText from an abstract         *)
(*               listing: the stream must be Encode(Stream(listing)).      *)
(*  mode "text"  real objdump output: the grammar of JasmObjdump           *)
(*               (ParseLine) says which lines are instruction lines, their *)
(*               addresses, mnemonics and operand texts; the stream must   *)
(*               decode to exactly those, operands in C09's normal form    *)
(*               where the property promises one, every field free of      *)
(*               separator characters (C10).                                *)
(***************************************************************************)
EXTENDS JasmObjdump, JasmObserve, Json, IOUtils

Data == JsonDeserialize(IOEnv.JASM_CASES)
Cases == Data.cases

VARIABLES idx, verdict
vars == <<idx, verdict>>

CheckAbs(c) ==
    LET exp == Stream(c.listing) IN
    IF c.outcome # "ok" THEN "rej:C08_ParserFailed"
    ELSE IF c.lines # ListingLines(c.listing) THEN "rej:MACHINERY_TextNotFromListing"
    ELSE IF ~ListOK(exp) THEN "rej:MACHINERY_UniverseNotFieldOK"
    ELSE IF ~StreamWellFormed(c.stream) THEN "rej:C10_WellFormed"
    ELSE IF Len(Decode(c.stream)) # Len(exp) THEN "rej:C08_Count"
    ELSE IF \E n \in DOMAIN exp : Decode(c.stream)[n].addr # exp[n].addr
                                   \/ ~MnAgrees(SelectSeq(c.listing, IsInsn)[n].mn, Decode(c.stream)[n].mn)
         THEN "rej:C08_AddrMnemonic"
    ELSE IF \E n \in DOMAIN exp : Len(Decode(c.stream)[n].ops) # Len(exp[n].ops) THEN "rej:C09_OperandCount"
    ELSE IF \E n \in DOMAIN exp : Decode(c.stream)[n].ops # exp[n].ops THEN "rej:C09_NormalForm"
    ELSE IF c.stream # Encode(Decode(c.stream)) THEN "rej:C10_Encoding"
    \* the same object asked a second time hands the same text to the matcher
    ELSE IF c.again # c.stream THEN "rej:C10_SecondScanWithTheSameObjectDiffers"
    ELSE "ok"

\* when address / mnemonic disagree the operand clauses are still decidable (the counts agree): they are reported
\* as |also:<clause> so that each property's check sees its own clause
AlsoOps(T, D) ==
    IF \E n \in DOMAIN T : Len(D[n].ops) # Len(T[n].ops)
    THEN "|also:C10_CommaInsideField"
         \o (IF \E n \in DOMAIN T : (\A k \in DOMAIN T[n].ops : NormOfText(T[n].ops[k]).ok) /\ Len(D[n].ops) # Len(T[n].ops)
             THEN "|also:C09_OperandCount" ELSE "")
    ELSE IF \E n \in DOMAIN T :
              /\ \A k \in DOMAIN T[n].ops : NormOfText(T[n].ops[k]).ok
              /\ \E k \in DOMAIN T[n].ops : D[n].ops[k] # NormOfText(T[n].ops[k]).v
         THEN "|also:C09_NormalForm"
    ELSE ""

CheckText(c) ==
    IF c.outcome # "ok" THEN "rej:C08_ParserFailed"
    ELSE LET T == TextInsns(c.lines) IN
    IF ~StreamWellFormed(c.stream) THEN
        \* a separator inside a field the parser produced shows up as a malformed record
        (IF \E n \in DOMAIN T : ~FieldOK(T[n].mn) THEN "rej:C10_SeparatorInMnemonic" ELSE "rej:C10_WellFormed")
    ELSE LET D == Decode(c.stream) IN
    IF \E n \in DOMAIN T : ~FieldOK(T[n].mn) THEN "rej:C10_SeparatorInMnemonic"
    ELSE IF Len(D) # Len(T) THEN "rej:C08_Count"
    ELSE IF \E n \in DOMAIN T : D[n].addr # T[n].addr \/ ~MnAgrees(T[n].mn, D[n].mn) THEN "rej:C08_AddrMnemonic" \o AlsoOps(T, D)
    ELSE IF ~ListOK(D) \/ Encode(D) # c.stream THEN "rej:C10_FieldSeparator"
    \* a comma that is not a separator would show up as an extra operand field: the line's operand
    \* text, split at the commas outside parentheses, says how many operands there are
    ELSE IF \E n \in DOMAIN T : Len(D[n].ops) # Len(T[n].ops) THEN "rej:C10_CommaInsideField"
    ELSE IF \E n \in DOMAIN T :
              (\A k \in DOMAIN T[n].ops : NormOfText(T[n].ops[k]).ok) /\ Len(D[n].ops) # Len(T[n].ops)
         THEN "rej:C09_OperandCount"
    ELSE IF \E n \in DOMAIN T :
              /\ \A k \in DOMAIN T[n].ops : NormOfText(T[n].ops[k]).ok
              /\ \E k \in DOMAIN T[n].ops : D[n].ops[k] # NormOfText(T[n].ops[k]).v
         THEN "rej:C09_NormalForm"
    ELSE IF c.again # c.stream THEN "rej:C10_SecondScanWithTheSameObjectDiffers"
    ELSE "ok"

\* mode "pair" (C16): two printings of the same code by the real objdump (other options,
\* stripped symbols).  If the grammar says both texts hold the same instruction sequence,
\* the parser must produce the same stream for both.
Core(T) == [n \in DOMAIN T |-> <<T[n].addr, T[n].mn, T[n].ops>>]
CheckPair(c) ==
    IF Core(TextInsns(c.lines)) # Core(TextInsns(c.lines2)) THEN "skip:NotTheSameInstructions"
    ELSE IF c.outcome # "ok" \/ c.outcome2 # "ok" THEN "rej:C16_VariantFailed"
    ELSE IF c.stream # c.stream2 THEN "rej:C16_VariantStream"
    ELSE "ok"

\* mode "range" (C18): the same real listing parsed without (stream) and with (stream2) a
\* valid_addr_range c.range: the second must be an allowed tagging of the first
CheckRange(c) ==
    IF c.outcome # "ok" THEN "skip:ParserFailsAnyway"
    ELSE IF c.outcome2 # "ok" THEN "rej:C18_RangeMakesItFail"
    ELSE IF ~StreamWellFormed(c.stream) \/ ~StreamWellFormed(c.stream2) THEN "skip:StreamNotWellFormed"
    ELSE IF Len(Decode(c.stream2)) # Len(Decode(c.stream)) THEN "rej:C08_Count|also:C18_Tagging"
    ELSE IF \E n \in DOMAIN Decode(c.stream) : Decode(c.stream2)[n].addr # Decode(c.stream)[n].addr
                                                \/ Decode(c.stream2)[n].mn # Decode(c.stream)[n].mn
         THEN "rej:C08_AddrMnemonic|also:C18_Tagging"
    ELSE IF ~AllowedTagging(Decode(c.stream), Decode(c.stream2), c.range[1], c.range[2]) THEN "rej:C18_Tagging"
    ELSE IF Decode(c.stream) = Decode(c.stream2) THEN "ok:untagged" ELSE "ok:tagged"

\* mode "scale" (C08, C10 "of any length"): the text is c.lines repeated c.reps times (after a label line);
\* the stream must be the encoding of the block's instructions repeated c.reps times -- checked
\* block by block, without building the whole expected string
CheckScale(c) ==
    LET T  == TextInsns(c.lines)
        E  == [n \in DOMAIN T |-> Ins(T[n].addr, StreamMn(T[n].mn), [k \in DOMAIN T[n].ops |-> NormOfText(T[n].ops[k]).v])]
        eb == Encode(E)
        lb == Len(eb)
    IN IF c.outcome # "ok" THEN "rej:C08_ParserFailed"
       ELSE IF \E n \in DOMAIN T : \E k \in DOMAIN T[n].ops : ~NormOfText(T[n].ops[k]).ok THEN "rej:MACHINERY_BlockOutsideC09"
       ELSE IF Len(c.stream) # c.reps * lb THEN "rej:C08_Count"
       ELSE IF \E j \in 0..(c.reps - 1) : SubSeq(c.stream, j * lb + 1, (j + 1) * lb) # eb THEN "rej:C10_Encoding"
       ELSE "ok"

Check(c) == IF c.mode = "abs" THEN CheckAbs(c) ELSE IF c.mode = "pair" THEN CheckPair(c) ELSE IF c.mode = "scale" THEN CheckScale(c)
            ELSE IF c.mode = "range" THEN CheckRange(c) ELSE CheckText(c)

(***************************************************************************)
(* Input classes of recorded known findings (known_findings.json)          *)
(***************************************************************************)
\* F9: branch-hint mnemonics "jne,pn" / "jo,pt" (objdump prints the hint after a comma)
IsHinted(m) == Len(m) > 3 /\ SubSeq(m, Len(m) - 2, Len(m)) \in {",pn", ",pt"}
                 /\ FieldOK(SubSeq(m, 1, Len(m) - 3))
KD_BranchHint(c) ==
    LET T == TextInsns(c.lines) IN
    /\ \E n \in DOMAIN T : ~FieldOK(T[n].mn)
    /\ \A n \in DOMAIN T : ~FieldOK(T[n].mn) => IsHinted(T[n].mn)
\* F10b: 16-bit addressing "(%bx,%si)" -- two components inside the parentheses
TwoInParens(o) ==
    LET lp == FindFrom("(", o, 1) IN
    lp > 0 /\ Ch(o, Len(o)) = ")" /\ Len(SplitStr(SubSeq(o, lp + 1, Len(o) - 1), ",")) = 2
KD_Addr16(c) ==
    LET T == TextInsns(c.lines) IN
    c.outcome # "ok" /\ \E n \in DOMAIN T : \E k \in DOMAIN T[n].ops : TwoInParens(T[n].ops[k])
\* F10a: listings printed with --no-show-raw-insn (no raw-byte column)
KD_NoRawInsn(c) ==
    c.mode = "pair" /\ \E n \in DOMAIN c.lines2 :
        LET f == SplitStr(c.lines2[n], "\t") IN Len(f) = 2 /\ ParseLine(c.lines2[n]).kind = "insn"
Tags(c) == (IF c.mode = "text" /\ KD_BranchHint(c) THEN "|KD_BranchHint" ELSE "")
           \o (IF KD_NoRawInsn(c) THEN "|KD_NoRawInsn" ELSE "")
           \o (IF c.mode = "text" /\ KD_Addr16(c) THEN "|KD_Addr16" ELSE "")
Verdict(c) == LET v == Check(c) IN IF IsPrefixStr("rej", v) THEN v \o Tags(c) ELSE v

Init == idx \in DOMAIN Cases /\ verdict = "?"
Next == verdict = "?" /\ verdict' = Verdict(Cases[idx]) /\ UNCHANGED idx
Spec == Init /\ [][Next]_vars
=============================================================================
