------------------------------ MODULE Trace_CLI ------------------------------
EXTENDS JasmCLI, Json, IOUtils, TLC, SequencesExt
Cases == JsonDeserialize(IOEnv.JASM_CASES).cases
VARIABLES idx, verdict
Inv(c) == [pat |-> c.pat, src |-> { c.src[n] : n \in DOMAIN c.src }, all |-> c.all, addr |-> c.addr,
           macros |-> c.macros, pair |-> c.pair]
Check(c) ==
    LET inv == Inv(c) IN
    IF ~UsageError(inv) /\ ~OracleConsistent(c.api) THEN "rej:C12_OracleInconsistent"
    ELSE IF Conforms(inv, c.api, c.cli) THEN (IF UsageError(inv) THEN "ok:usage" ELSE IF c.api.outcome # "ok" THEN "ok:fail" ELSE "ok")
    ELSE IF UsageError(inv) THEN "rej:C20_UsageNotRejected"
    ELSE IF c.api.outcome # "ok" THEN "rej:C20_FailureNotReported"
    ELSE IF c.cli.exit # 0 THEN "rej:C20_ExitStatus"
    ELSE IF c.cli.lines[Len(c.cli.lines)] # ResultLine(c.api.found) THEN "rej:C20_Verdict"
    ELSE "rej:C20_Addresses"
Init == idx \in DOMAIN Cases /\ verdict = "?"
Next == verdict = "?" /\ verdict' = Check(Cases[idx]) /\ UNCHANGED idx
Spec == Init /\ [][Next]_<<idx, verdict>>
=============================================================================
