------------------------------- MODULE U_C13 -------------------------------
(***************************************************************************)
(* Universe of C13: rule documents that use macros in every supported use   *)
(* form -- whole-item macros, whole-value macros (operand, $deref field),   *)
(* string macros used exactly, inside a longer name and with a `times'      *)
(* body, parameterised macros with one and two formals used with equal and  *)
(* with different arguments, a macro whose body uses a later-listed macro   *)
(* -- with every split of the definitions between the rule file and extra   *)
(* macro files.  For each document TLC computes the manually inlined form   *)
(* (InlineRef); both are compiled by the real code.                         *)
(***************************************************************************)
EXTENDS JasmSyntax, SequencesExt
MP == INSTANCE JasmMacroPass WITH FinalScan <- TRUE, orig <- 0, defs <- 0, doc <- 0, rm <- 0, i <- 0, outcome <- 0
CONSTANTS MaxUses

S(x) == DStr(x)
L(xs) == DList(xs)
M_one   == MacroDef("@one", <<>>, L(<<S("push")>>))
M_grp   == MacroDef("@grp", <<>>, L(<<DMap1("$or", L(<<S("call"), S("jmp")>>))>>))
M_str   == MacroDef("@str", <<>>, S("mov"))
M_reg   == MacroDef("@reg", <<>>, S("%rax"))
M_z     == MacroDef("@z", <<"p1">>, L(<<DMap1("$or", L(<<DMap1("xor", L(<<S("p1"), S("p1")>>)),
                                                          DMap1("mov", L(<<DInt(0), S("p1")>>))>>))>>))
\* a parameterised macro that forwards its own parameter to another parameterised macro with the SAME formal name
M_fz    == MacroDef("@fz", <<"p1">>, L(<<DMap1("$and", L(<<DMap(<<DPair("@z", DNull), DPair("p1", S("p1"))>>), S("ret")>>))>>))
\* a macro that hands its parameter r on to @z under @z's own formal name p1 (p1 is not a parameter of @sr)
M_sr    == MacroDef("@sr", <<"r">>, L(<<DMap1("$and", L(<<DMap1("push", L(<<S("r")>>)), DMap(<<DPair("@z", DNull), DPair("p1", S("r"))>>)>>))>>))
M_two   == MacroDef("@two", <<"p1", "p2">>, L(<<DMap1("mov", L(<<S("p1"), S("p2")>>))>>))
M_outer == MacroDef("@outer", <<>>, L(<<DMap1("$and", L(<<S("@inner"), S("ret")>>))>>))
M_inner == MacroDef("@inner", <<>>, L(<<S("leave")>>))
\* formal parameters with short names that also occur INSIDE other names of the body (a in rax, b in rbx)
M_w     == MacroDef("@w", <<"a", "b">>, L(<<DMap1("$and", L(<<DMap1("mov", L(<<S("a"), S("b")>>)), DMap1("add", L(<<S("rax"), S("a")>>)),
                                                            DMap1("sub", L(<<S("b"), S("rbx")>>))>>))>>))
\* a string macro that is only ever used INSIDE a name, not at its start (`%r@lx'), listed last
M_l     == MacroDef("@l", <<>>, S("a"))
\* a repeated group (`times' as a sibling key) as a macro body: every reference must honour the bounds
M_rep   == MacroDef("@rep", <<>>, L(<<DMap(<<DPair("$and", L(<<S("push"), S("pop")>>)), DPair("times", DInt(2))>>)>>))
AllMacros == <<M_one, M_grp, M_str, M_outer, M_inner, M_reg, M_two, M_sr, M_fz, M_z, M_w, M_l, M_rep>>
NM == Len(AllMacros)

Call(name, args) == DMap(<<DPair(name, DNull)>> \o args)
Uses == { S("@one"), S("@grp"), S("@str"), S("@strq"), DMap1("@str", DMap1("times", DInt(2))),
          \* the same string macro with other bounds (every use carries its own `times')
          DMap1("@str", DMap1("times", DInt(3))),
          DMap1("push", L(<<S("@reg")>>)), DMap1("mov", L(<<S("@reg"), S("@regx")>>)), DMap1("pop", L(<<S("%r@lx")>>)),
          Call("@z", <<DPair("p1", S("eax"))>>), Call("@z", <<DPair("p1", S("ebx"))>>),
          \* an argument written as an unquoted YAML integer (0 is falsy in the implementation language)
          Call("@two", <<DPair("p1", DInt(0)), DPair("p2", S("eax"))>>),
          Call("@sr", <<DPair("r", S("ebx"))>>),
          Call("@fz", <<DPair("p1", S("eax"))>>), Call("@fz", <<DPair("p1", S("ebx"))>>),
          Call("@two", <<DPair("p1", S("eax")), DPair("p2", S("ebx"))>>),
          Call("@two", <<DPair("p1", S("ebx")), DPair("p2", S("eax"))>>),
          Call("@w", <<DPair("a", S("rcx")), DPair("b", S("rdx"))>>), Call("@w", <<DPair("a", S("rbx")), DPair("b", S("rcx"))>>),
          S("@outer"), S("@rep"), DMap1("$not", L(<<S("@grp")>>)), DMap1("$or", L(<<S("@one"), S("@str")>>)),
          DMap1("mov", L(<<DMap1("$deref", DMap(<<DPair("main_reg", S("@reg"))>>))>>)), S("ret") }
Patterns == { L(s) : s \in UNION { [1..n -> Uses] : n \in 1..MaxUses } }

\* splits of the definition list: <<extra files..., rule file>>, order of the combined list preserved
Splits == { << <<>>, AllMacros >>,                                         \* everything in the rule file
            << <<AllMacros>>, <<>> >>,                                      \* one extra macro file
            << <<SubSeq(AllMacros, 1, 4)>>, SubSeq(AllMacros, 5, NM) >>,     \* half and half
            \* two extra files; @outer is in the first, the @inner its body uses in the second
            << <<SubSeq(AllMacros, 1, 4), SubSeq(AllMacros, 5, 6)>>, SubSeq(AllMacros, 7, NM) >>,
            \* @outer in an extra file, @inner in the rule file
            << <<SubSeq(AllMacros, 1, 4)>>, SubSeq(AllMacros, 5, NM) >> }
RECURSIVE FlatSeq(_)
FlatSeq(ss) == IF ss = <<>> THEN <<>> ELSE Head(ss) \o FlatSeq(Tail(ss))
Combined(sp) == FlatSeq(sp[1]) \o sp[2]
ASSUME \A sp \in Splits : Combined(sp) = AllMacros

Docs == { [pattern |-> p, xfiles |-> sp[1], macros |-> sp[2], inlined |-> InlineRef(p, Combined(sp)),
           \* a listing on which the inlined rule is meant to be found (for behavioural comparisons)
           witness |-> Witness(Parse(InlineRef(p, Combined(sp)))),
           model_outcome |-> MP!RunModel(p, Combined(sp)).outcome]
          : p \in Patterns, sp \in Splits }
\* the inlined form is macro free
ASSUME \A p \in Patterns : AtNames(InlineRef(p, AllMacros)) = {}
Universe == [docs |-> SetToSeq(Docs)]
=============================================================================
