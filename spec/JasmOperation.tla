---------------------------- MODULE JasmOperation ----------------------------
(***************************************************************************)
(* One compile-and-match operation as a pipeline of stages, with fault     *)
(* injection (C17).  Each fault kind belongs to the stage at which the     *)
(* operation can first notice it; the operation ends in "error" there.     *)
(* An operation that reaches Return without a fault has scanned the input  *)
(* with the rule as written and reports found / notfound.                  *)
(***************************************************************************)
EXTENDS Naturals, Sequences, FiniteSets

Stages == <<"LoadRule", "LoadConfig", "MacroExpand", "BuildTree", "EmitRegex", "Disassemble", "Parse", "Scan", "Return">>
StageIx(s) == CHOOSE n \in DOMAIN Stages : Stages[n] = s

\* fault kind -> <<stage, modes in which it can be injected>>
FaultTable == [
    rule_missing        |-> <<"LoadRule", {"text", "bin"}>>,
    rule_is_dir         |-> <<"LoadRule", {"text", "bin"}>>,
    rule_bad_yaml       |-> <<"LoadRule", {"text", "bin"}>>,
    rule_not_mapping    |-> <<"LoadRule", {"text", "bin"}>>,
    config_wrong_type   |-> <<"LoadConfig", {"text", "bin"}>>,
    flag_wrong_type     |-> <<"LoadConfig", {"text", "bin"}>>,
    range_wrong_type    |-> <<"LoadConfig", {"text", "bin"}>>,
    sections_wrong_type |-> <<"LoadConfig", {"text", "bin"}>>,
    macros_wrong_type   |-> <<"MacroExpand", {"text", "bin"}>>,
    macro_file_missing  |-> <<"MacroExpand", {"text", "bin"}>>,
    macro_file_bad      |-> <<"MacroExpand", {"text", "bin"}>>,
    macro_undefined     |-> <<"MacroExpand", {"text", "bin"}>>,
    macro_undefined_nodefs |-> <<"MacroExpand", {"text", "bin"}>>,
    macro_name_no_at    |-> <<"MacroExpand", {"text", "bin"}>>,
    pattern_missing     |-> <<"BuildTree", {"text", "bin"}>>,
    pattern_null        |-> <<"BuildTree", {"text", "bin"}>>,
    pattern_wrong_type  |-> <<"BuildTree", {"text", "bin"}>>,
    empty_group         |-> <<"BuildTree", {"text", "bin"}>>,
    not_arity           |-> <<"BuildTree", {"text", "bin"}>>,
    times_negative      |-> <<"BuildTree", {"text", "bin"}>>,
    times_inverted      |-> <<"BuildTree", {"text", "bin"}>>,
    deref_no_main_reg   |-> <<"EmitRegex", {"text", "bin"}>>,
    input_missing       |-> <<"Disassemble", {"text", "bin"}>>,
    input_is_dir        |-> <<"Disassemble", {"text", "bin"}>>,
    input_not_utf8      |-> <<"Disassemble", {"text"}>>,
    input_not_object    |-> <<"Disassemble", {"bin"}>>,
    objdump_absent      |-> <<"Disassemble", {"bin"}>>,
    objdump_fails       |-> <<"Disassemble", {"bin"}>>,
    section_missing     |-> <<"Disassemble", {"bin"}>> ]
FaultKinds == DOMAIN FaultTable
Placements == { <<k, m>> \in FaultKinds \X {"text", "bin"} : m \in FaultTable[k][2] }

VARIABLES mode, fault, stage, outcome, scanned
vars == <<mode, fault, stage, outcome, scanned>>

Init == /\ mode \in {"text", "bin"}
        /\ fault \in {"none"} \cup { k \in FaultKinds : mode \in FaultTable[k][2] }
        /\ stage = 1 /\ outcome = "running" /\ scanned = FALSE

Fail == /\ outcome = "running" /\ fault # "none" /\ Stages[stage] = FaultTable[fault][1]
        /\ outcome' = "error"
        /\ UNCHANGED <<mode, fault, stage, scanned>>
Advance == /\ outcome = "running" /\ Stages[stage] # "Return"
           /\ ~(fault # "none" /\ Stages[stage] = FaultTable[fault][1])
           /\ stage' = stage + 1
           /\ scanned' = (scanned \/ Stages[stage] = "Scan")
           /\ UNCHANGED <<mode, fault, outcome>>
Return == /\ outcome = "running" /\ Stages[stage] = "Return"
          /\ outcome' \in {"found", "notfound"}
          /\ UNCHANGED <<mode, fault, stage, scanned>>
Next == Fail \/ Advance \/ Return
Spec == Init /\ [][Next]_vars

\* C17: an input that was not scanned with the rule as written is never reported as not found
C17_Loud == outcome \in {"found", "notfound"} => (scanned /\ fault = "none")
\* every fault ends the operation with an error
FaultEnds == (outcome # "running" /\ fault # "none") => outcome = "error"
\* terminal outcome of an operation with fault k (used by the trace specification)
Terminal(k) == IF k = "none" THEN {"found", "notfound"} ELSE {"error"}
=============================================================================
