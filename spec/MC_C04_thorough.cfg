SPECIFICATION Spec
CONSTANTS
  MaxListing = 5
INVARIANT C04_One
CHECK_DEADLOCK FALSE
