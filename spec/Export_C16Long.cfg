INIT Init
NEXT Next
