--------------------------- MODULE Export_C16Long ---------------------------
(***************************************************************************)
(* C16 on listings of realistic length: 80 instructions (twenty small      *)
(* functions), printed with symbol labels at different places -- none, at  *)
(* the start only, in front of the 69th / 73rd instruction (more than 64   *)
(* instructions after the previous label), everywhere.  All printings hold *)
(* the same instruction sequence; rules whose occurrences straddle the     *)
(* labels must give the same results on all of them.                       *)
(***************************************************************************)
EXTENDS JasmObjdump, SequencesExt, Json, IOUtils
HexD16 == <<"0", "1", "2", "3", "4", "5", "6", "7", "8", "9", "a", "b", "c", "d", "e", "f">>
LHex2(n) == HexD16[(n \div 16) + 1] \o HexD16[(n % 16) + 1]
LongAddr(n) == "4010" \o LHex2(n)
LInsnAt(n) == CASE n % 4 = 1 -> InsnLine(LongAddr(n), <<"55">>, "push", <<Reg("%rbp")>>)
               [] n % 4 = 2 -> InsnLine(LongAddr(n), <<"48", "89", "e5">>, "mov", <<Reg("%rsp"), Reg("%rbp")>>)
               [] n % 4 = 3 -> InsnLine(LongAddr(n), <<"5d">>, "pop", <<Reg("%rbp")>>)
               [] OTHER     -> InsnLine(LongAddr(n), <<"c3">>, "ret", <<>>)
N == 80
RECURSIVE LBuild(_, _)
LBuild(n, labels) ==
    IF n > N THEN <<>>
    ELSE (IF n \in labels THEN <<LabelLine("00000000004010" \o LHex2(n), "fn" \o LHex2(n))>> ELSE <<>>) \o <<LInsnAt(n)>> \o LBuild(n + 1, labels)
LabelSets == << {}, {1}, {1, 69}, {1, 73}, {9, 69}, {1, 9, 69, 73}, { n \in 1..N : n % 4 = 1 } >>
Listings == [k \in DOMAIN LabelSets |-> LBuild(1, LabelSets[k])]
ASSUME \A k \in DOMAIN Listings : Stream(Listings[k]) = Stream(Listings[1])
ASSUME JsonSerialize(IOEnv.JASM_OUT, [stream |-> Stream(Listings[1]),
                                      texts |-> [k \in DOMAIN Listings |-> ListingLines(Listings[k])]])
VARIABLE x
Init == x = 0
Next == x' = x
=============================================================================
