SPECIFICATION Spec
CONSTANTS
  Scheme = "fixed"
  MaxL = 3
  Part = "groups"
INVARIANT CompileRefines
CHECK_DEADLOCK FALSE
