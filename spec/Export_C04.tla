----------------------------- MODULE Export_C04 -----------------------------
EXTENDS U_C04, Json, IOUtils
ASSUME JsonSerialize(IOEnv.JASM_OUT, [i |-> Universe, o |-> UniverseO, f |-> UniverseF, n |-> UniverseN])
VARIABLE x
Init == x = 0
Next == x' = x
=============================================================================
