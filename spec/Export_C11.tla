----------------------------- MODULE Export_C11 -----------------------------
EXTENDS U_C11, Json, IOUtils
UR == INSTANCE U_Range
ASSUME JsonSerialize(IOEnv.JASM_OUT, [m |-> Universe, s |-> UniverseS, r |-> UR!UniverseRange])
VARIABLE x
Init == x = 0
Next == x' = x
=============================================================================
