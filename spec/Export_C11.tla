----------------------------- MODULE Export_C11 -----------------------------
EXTENDS U_C11, Json, IOUtils
ASSUME JsonSerialize(IOEnv.JASM_OUT, Universe)
VARIABLE x
Init == x = 0
Next == x' = x
=============================================================================
