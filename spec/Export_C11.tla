----------------------------- MODULE Export_C11 -----------------------------
EXTENDS U_C11, Json, IOUtils
ASSUME JsonSerialize(IOEnv.JASM_OUT, [m |-> Universe, s |-> UniverseS])
VARIABLE x
Init == x = 0
Next == x' = x
=============================================================================
