------------------------------- MODULE U_C02 -------------------------------
(***************************************************************************)
(* Universe of C02: every node kind carrying `times', every bound pair     *)
(* 0 <= lo <= hi <= MaxT, embedded between two anchor items p ... q (so    *)
(* that the whole pattern cannot match the empty sequence), alone, and the *)
(* hand-unrolled spelling.  Listings are runs over the unit's alphabet     *)
(* with a foreign instruction c, so that runs of length lo-1, lo, hi, hi+1 *)
(* with and without an interposed instruction all occur.                    *)
(***************************************************************************)
EXTENDS JasmUniverse
CONSTANTS MaxT, MaxGroupT, MaxBody

I(m) == PIns(m, <<>>)
Units == { I("a"), PIns("a", <<OLit("x")>>) }
Groups == { PAnd(<<WithTimes(I("a"), 2, 2)>>), POr(<<WithTimes(I("a"), 2, 3)>>), PAnd(<<PAnd(<<WithTimes(I("a"), 3, 3)>>)>>),
            PAnd(<<I("a"), I("b")>>), POr(<<I("a"), I("b")>>), PNot(I("a")),
            PPerm(<<I("a"), I("b")>>), POr(<<PAnd(<<I("a"), I("b")>>), I("c")>>) }
Bounds(mx) == { <<lo, hi>> \in (0..mx) \X (0..mx) : lo <= hi }

Repeated == { WithTimes(u, b[1], b[2]) : u \in Units, b \in Bounds(MaxT) }
       \cup { WithTimes(g, b[1], b[2]) : g \in Groups, b \in Bounds(MaxGroupT) }

RECURSIVE Rep(_, _)
Rep(x, n) == IF n = 0 THEN <<>> ELSE <<x>> \o Rep(x, n - 1)
\* hand-unrolled: the un-repeated unit written n times in a row
Unrolled == { PAnd(<<I("p")>> \o Rep(WithTimes(r, 1, 1), r.lo) \o <<I("q")>>) : r \in { r \in Repeated : r.lo = r.hi } }

Patterns == { PAnd(<<I("p"), r, I("q")>>) : r \in Repeated }
       \cup { PAnd(<<r, I("q")>>) : r \in Repeated }
       \cup { PAnd(<<I("p"), r>>) : r \in Repeated }
       \cup { PAnd(<<r>>) : r \in { r \in Repeated : r.lo > 0 } }
       \* a follower that can match the very instruction the repetition could also take (the repetition
       \* has to give instructions back)
       \cup { PAnd(<<r, PIns("a", <<OLit("x")>>)>>) : r \in Repeated }
       \cup { PAnd(<<I("p"), r, I("a"), I("q")>>) : r \in Repeated }
       \* the same repeated item at two places of one rule (in the `alias' spelling the two are ONE YAML node,
       \* written once with an anchor and referred to by an alias)
       \cup { PAnd(<<r, I("p"), r, I("q")>>) : r \in Repeated }
       \* a range on an item and the same range on the argument of a neighbouring $not (bounds are values: what one
       \* node does with its bounds must not reach another node's)
       \cup { PAnd(<<I("p"), WithTimes(I("a"), b[1], b[2]), PNot(WithTimes(I("b"), b[1], b[2])), I("q")>>) : b \in { <<2, 3>>, <<1, 2>> } }
       \cup { PAnd(<<I("p"), PNot(WithTimes(I("b"), b[1], b[2])), WithTimes(I("a"), b[1], b[2]), I("q")>>) : b \in { <<2, 3>>, <<1, 2>> } }
       \cup Unrolled
       \* a repeated group that is a direct member of a group of the same kind (the bounds belong to the inner group:
       \* the two groups are not one flat group)
       \cup { PAnd(<<I("p"), POr(<<I("c"), WithTimes(POr(<<I("a"), I("b")>>), b[1], b[2])>>), I("q")>>)
               : b \in { <<0, 0>>, <<0, 1>>, <<1, 1>>, <<0, 2>>, <<2, 2>> } }
       \cup { PAnd(<<I("p"), PAnd(<<I("c"), WithTimes(PAnd(<<I("a"), I("b")>>), b[1], b[2])>>), I("q")>>)
               : b \in { <<0, 0>>, <<0, 1>>, <<1, 1>>, <<0, 2>>, <<2, 2>> } }
       \* optional items and groups whose mnemonics are real words (text that occurs nowhere else in the stream --
       \* single letters also occur inside addresses)
       \cup { PAnd(<<I("p"), WithTimes(g, b[1], b[2]), I("q")>>)
               : g \in { I("leave"), PAnd(<<I("inc"), I("xchg")>>), PPerm(<<I("inc"), I("xchg")>>), POr(<<I("inc"), I("xchg")>>) },
                 b \in { <<0, 0>>, <<0, 1>>, <<0, 2>>, <<1, 2>> } }

Bodies == { <<"a", <<>> >>, <<"a", <<"x">> >>, <<"b", <<>> >>, <<"c", <<>> >> }
\* runs of a long enough for nested repetition counts (2 x 3)
LongRuns == { WithAddrs(<< <<"p", <<>> >> >> \o [k \in 1..n |-> <<"a", <<>> >>] \o << <<"q", <<>> >> >>) : n \in 0..7 }
Inner == SeqsBetween(Bodies, 0, MaxBody)
Listings == { WithAddrs(<< <<"p", <<>> >> >> \o s \o << <<"q", <<>> >> >>) : s \in Inner }
       \cup { WithAddrs(s) : s \in SeqsBetween(Bodies, 0, 2) } \cup LongRuns
       \* runs of two-instruction units in alternating orders (a b b a ...), whatever MaxBody is
       \cup { WithAddrs(<< <<"p", <<>> >> >> \o s \o << <<"q", <<>> >> >>)
              : s \in SeqsBetween({ <<"a", <<>> >>, <<"b", <<>> >> }, 4, 4) }

       \cup { WithAddrs([k \in 1..n1 |-> <<"a", <<>> >>] \o << <<"p", <<>> >> >> \o [k \in 1..n2 |-> <<"a", <<>> >>] \o << <<"q", <<>> >> >>)
              : n1 \in 0..4, n2 \in 0..4 }

       \cup { WithAddrs(<< <<"p", <<>> >> >> \o s \o << <<"q", <<>> >> >>)
              : s \in SeqsBetween({ <<"inc", <<>> >>, <<"xchg", <<>> >>, <<"leave", <<>> >> }, 0, 3) }
       \cup { WithAddrs(<< <<"p", <<>> >> >> \o [k \in 1..n |-> <<"a", <<>> >>] \o << <<"c", <<>> >>, <<"q", <<>> >> >>) : n \in 0..4 }
       \cup { WithAddrs(<< <<"p", <<>> >>, <<"c", <<>> >> >> \o [k \in 1..n |-> <<"a", <<>> >>] \o << <<"q", <<>> >> >>) : n \in 0..4 }

Universe == [patterns |-> SetToSeq(Patterns), listings |-> SetToSeq(Listings)]
\* the repeated form under mnemonics-full-match: runs mixing `a' with a mnemonic that merely contains it
PatternsM == { PAnd(<<I("p"), WithTimes(I("a"), b[1], b[2]), I("q")>>) : b \in Bounds(MaxT) }
        \cup { PAnd(<<I("p")>> \o Rep(I("a"), n) \o <<I("q")>>) : n \in 0..MaxT }
ListingsM == { WithAddrs(<< <<"p", <<>> >> >> \o s \o << <<"q", <<>> >> >>) : s \in SeqsBetween({ <<"a", <<>> >>, <<"ab", <<>> >> }, 0, 3) }
UniverseM == [patterns |-> SetToSeq(PatternsM), listings |-> SetToSeq(ListingsM)]
=============================================================================
