----------------------------- MODULE Export_C18 -----------------------------
EXTENDS U_C18, Json, IOUtils
ASSUME JsonSerialize(IOEnv.JASM_OUT, Universe)
VARIABLE x
Init == x = 0
Next == x' = x
=============================================================================
