---------------------------- MODULE JasmMacroPass ----------------------------
(***************************************************************************)
(* The macro expansion ALGORITHM as implemented (macro_expander.py), as a  *)
(* state machine over rule document trees: one MacroPass per definition,   *)
(* in list order (extra macro files first), each a single recursive sweep  *)
(* with the add/discard bookkeeping of `rule_macros', then MacroCheck.     *)
(*                                                                         *)
(* This is an implementation-shaped design model.  It is model-checked     *)
(* against the property-level meaning of macros (JasmMacro!InlineRef,      *)
(* Unresolved): C19 (no @name survives a successful expansion) and, within *)
(* the supported use forms, C13 (the result is the inlined document).      *)
(* With FinalScan = FALSE it is the algorithm of the pinned tree and TLC   *)
(* reproduces the holes of finding F13 as counterexamples (control).  It   *)
(* is never a source of alarms about the code.                             *)
(***************************************************************************)
EXTENDS JasmMacro

CONSTANTS FinalScan     \* TRUE: the expanded tree is scanned for leftover @names (fix 3c50134)

Res(d, rm, err) == [d |-> d, rm |-> rm, err |-> err]

\* _apply_macro_to_tree for a whole-string / key use
ApplyTo(node, m) ==
    IF IsStrMacro(m)
    THEN IF node.t = "map"
         THEN (IF ValAt(node, m.name).t = "map" /\ HasKey(ValAt(node, m.name), "times")
               THEN Res(DMap1(m.body.s, ValAt(node, m.name)), {}, FALSE)
               ELSE Res(node, {}, TRUE))                   \* assert isinstance(times, dict) / "times" in times
         ELSE Res(m.body, {}, FALSE)
    ELSE IF m.body.t = "list" /\ Len(m.body.items) = 1
         THEN LET formals == { m.args[n] : n \in DOMAIN m.args }
                  given   == IF node.t = "map" THEN { f \in formals : HasKey(node, f) } ELSE {}
                  actual  == [f \in given |-> ValAt(node, f)]
              IN Res(SubstArgs(m.body.items[1], given, actual), {}, FALSE)
         ELSE Res(node, {}, TRUE)                           \* assert len(macro_pattern) == 1

\* _process_str_tree
PassStr(s, m, rm) ==
    IF m.name = s THEN LET a == ApplyTo(DStr(s), m) IN Res(a.d, rm \ {s}, a.err)
    ELSE IF IsInfixStr(m.name, s)
         THEN (IF IsStrMacro(m) THEN Res(DStr(ReplaceFirst(s, m.name, m.body.s)), rm \ {s}, FALSE)
               ELSE Res(DStr(s), rm, TRUE))                 \* str.replace with a list body raises
    ELSE Res(DStr(s), rm, FALSE)

RECURSIVE Pass(_, _, _), PassSeq(_, _, _, _)
\* sweep over a sequence of nodes (list items, or the pairs of a map), threading rule_macros
PassSeq(items, m, rm, inMap) ==
    IF items = <<>> THEN [ds |-> <<>>, rm |-> rm, err |-> FALSE]
    ELSE LET h == Head(items)
             r == IF inMap
                  THEN \* h is a pair: only its value is visited
                       (LET v == h.items[1] IN
                        IF v.t = "map" THEN Pass(v, m, rm)
                        ELSE IF v.t = "list" THEN
                             (LET q == PassSeq(v.items, m, rm, FALSE) IN Res([v EXCEPT !.items = q.ds], q.rm, q.err))
                        ELSE IF v.t = "str" THEN PassStr(v.s, m, IF IsMacroName(v.s) THEN rm \cup {v.s} ELSE rm)
                        ELSE Res(v, rm, FALSE))
                  ELSE Pass(h, m, rm)
             t == PassSeq(Tail(items), m, r.rm, inMap)
         IN [ds |-> <<IF inMap THEN [h EXCEPT !.items = <<r.d>>] ELSE r.d>> \o t.ds, rm |-> t.rm, err |-> r.err \/ t.err]

\* _apply_macro_recursively
Pass(d, m, rm) ==
    CASE d.t = "str" -> PassStr(d.s, m, IF IsMacroName(d.s) THEN rm \cup {d.s} ELSE rm)
      [] d.t = "map" ->
            IF HasKey(d, m.name) THEN LET a == ApplyTo(d, m) IN Res(a.d, rm \ {m.name}, a.err)
            ELSE LET q == PassSeq(d.items, m, rm, TRUE) IN Res([d EXCEPT !.items = q.ds], q.rm, q.err)
      [] OTHER -> Res(d, rm, FALSE)                         \* a list directly inside a list, ints, null

\* the whole algorithm as a function (the same passes, folded): used to compare the model's outcome with the
\* real expander's on every document of the universes (binding of this model; drift is reported, not alarmed)
RECURSIVE RunFrom(_, _, _, _)
RunFrom(d, M, r, k) ==
    IF k > Len(M)
    THEN LET left == IF FinalScan THEN r \cup AtNames(d) ELSE r IN
         [outcome |-> IF left # {} THEN "error" ELSE "ok", doc |-> d]
    ELSE LET x == Pass(d, M[k], r) IN
         IF x.err THEN [outcome |-> "error", doc |-> d] ELSE RunFrom(x.d, M, x.rm, k + 1)
RunModel(p, M) == IF BadMacroNames(M) # {} THEN [outcome |-> "error", doc |-> DMap1("$and", p)] ELSE RunFrom(DMap1("$and", p), M, {}, 1)

----------------------------------------------------------------------------
VARIABLES orig, defs, doc, rm, i, outcome
vars == <<orig, defs, doc, rm, i, outcome>>

\* the tree the expander works on: {"$and": pattern}
Top(p) == DMap1("$and", p)

InitWith(p, M) ==
    /\ orig = p /\ defs = M
    /\ doc = Top(p) /\ rm = {} /\ i = 1
    /\ outcome = IF BadMacroNames(M) # {} THEN "error" ELSE "running"

MacroPass ==
    /\ outcome = "running" /\ i <= Len(defs)
    /\ LET r == Pass(doc, defs[i], rm) IN
         /\ doc' = r.d /\ rm' = r.rm
         /\ outcome' = IF r.err THEN "error" ELSE "running"
    /\ i' = i + 1
    /\ UNCHANGED <<orig, defs>>

MacroCheck ==
    /\ outcome = "running" /\ i > Len(defs)
    /\ LET left == IF FinalScan THEN rm \cup AtNames(doc) ELSE rm IN
         /\ rm' = left
         /\ outcome' = IF left # {} THEN "error" ELSE "ok"
    /\ UNCHANGED <<orig, defs, doc, i>>

Next == MacroPass \/ MacroCheck

\* C19 at design level: a successful expansion leaves no @name in the tree, and an unresolved
\* reference or a bad macro name never ends in "ok"
C19_NoneKept == outcome = "ok" => AtNames(doc) = {}
C19_Reported == (outcome = "ok") => ~MustFail(orig, defs)
\* C13 at design level (supported use forms only): the algorithm computes the inlined document
C13_IsInlined == outcome = "ok" => doc = Top(InlineRef(orig, defs))
=============================================================================
