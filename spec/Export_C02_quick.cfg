INIT Init
NEXT Next
CONSTANTS
  MaxT = 3
  MaxGroupT = 2
  MaxBody = 3
