------------------------------- MODULE U_C12 -------------------------------
(***************************************************************************)
(* Universe of C12: a mixed set of patterns (items, operands, groups,      *)
(* $not, captures, repetition) on listings with none, one and several      *)
(* matches.  Every case is executed in all 2 x 2 x 2 mode combinations,     *)
(* each with its own freshly constructed operation.                        *)
(***************************************************************************)
EXTENDS JasmUniverse
CONSTANTS MaxListing

I(m) == PIns(m, <<>>)
X == OLit("x")  Y == OLit("y")
Patterns == { PAnd(<<I("a")>>), PAnd(<<PIns("a", <<X>>)>>), PAnd(<<I("a"), I("b")>>),
              PAnd(<<PInsT("a", <<>>, 1, 2)>>), PAnd(<<POr(<<I("a"), I("b")>>), I("a")>>),
              PAnd(<<PNot(I("a"))>>), PAnd(<<PNot(I("a")), I("b")>>), PAnd(<<PPerm(<<I("a"), I("b")>>)>>),
              PAnd(<<PICap("i"), PICap("i")>>), PAnd(<<PIns("a", <<OCap("o")>>), PIns("b", <<OCap("o")>>)>>),
              PAnd(<<PIns("a", <<ONot(X)>>)>>), PAnd(<<PIns("ab", <<>>)>>),
              PAnd(<<WithTimes(PAnd(<<I("a"), I("b")>>), 1, 2)>>), PAnd(<<PIns("a", <<OOr(<<X, Y>>)>>), I("b")>>) }
Bodies == { <<"a", <<"x">> >>, <<"a", <<"y">> >>, <<"b", <<"x">> >>, <<"ab", <<"y">> >> }
Listings == ListingsOver(Bodies, 0, MaxListing)
\* patterns that can match the empty sequence, and listings in which addresses repeat (objdump of an
\* object with several sections that all start at 0): validated on the raw results only (Trace_Modes)
NullablePatterns == { PAnd(<<PInsT("a", <<>>, 0, 2)>>), PAnd(<<PInsT("b", <<OLit("x")>>, 0, 1), PInsT("a", <<>>, 0, 1)>>),
                      PAnd(<<WithTimes(POr(<<I("a"), I("b")>>), 0, 2)>>) }
DupAddr(body) == [n \in DOMAIN body |-> Ins(<<"0", "4", "0", "4", "8">>[n], body[n][1], body[n][2])]
DupListings == { DupAddr(s) : s \in SeqsBetween(Bodies, 3, 4) }
Universe == [patterns |-> SetToSeq(Patterns), listings |-> SetToSeq(Listings)]
UniverseN == [patterns |-> SetToSeq(NullablePatterns \cup Patterns), listings |-> SetToSeq(Listings \cup DupListings)]
=============================================================================
