SPECIFICATION Spec
CONSTANTS
  Scheme = "fixed"
  MaxL = 2
  Part = "times"
INVARIANT CompileRefines
CHECK_DEADLOCK FALSE
