INIT Init
NEXT Next
CONSTANT MaxPow = 15
