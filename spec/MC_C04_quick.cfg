SPECIFICATION Spec
CONSTANTS
  MaxListing = 4
INVARIANT C04_One
CHECK_DEADLOCK FALSE
