SPECIFICATION Spec
CONSTANTS
  MaxBlocks = 2
  MaxOps = 2
INVARIANT GrammarConsistent
CHECK_DEADLOCK FALSE
