SPECIFICATION Spec
CONSTANT MaxN = 5
INVARIANT Sound
INVARIANT Consequences
INVARIANT NoDeadEnd
INVARIANT FirstIsPrefix
CHECK_DEADLOCK FALSE
