----------------------------- MODULE Export_C03 -----------------------------
EXTENDS U_C03, Json, IOUtils
ASSUME JsonSerialize(IOEnv.JASM_OUT, [i |-> Universe, o |-> UniverseO, d |-> UniverseD, w |-> UniverseW])
VARIABLE x
Init == x = 0
Next == x' = x
=============================================================================
