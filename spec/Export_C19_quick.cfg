INIT Init
NEXT Next
