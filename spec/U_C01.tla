------------------------------- MODULE U_C01 -------------------------------
(***************************************************************************)
(* Universe of C01: item-sequence patterns over literal names with the     *)
(* near-miss relations the statement names:                                *)
(*   mnemonic names   a occurs in ab, ab equals ab, b/ab, ba never         *)
(*   operand names    x occurs in xy and %x; y only in xy                  *)
(*   operand position k-th vs (k+1)-th, fewer operands than the item       *)
(*   windows          at the start, in the middle, one instruction short   *)
(***************************************************************************)
EXTENDS JasmUniverse
CONSTANTS MaxItems, MaxListing, PMn, POps, LMn, LOps

ItemsP == { PIns(m, LitOps(o)) : m \in PMn, o \in POps }
Patterns == { PAnd(s) : s \in SeqsBetween(ItemsP, 1, MaxItems) }
Bodies == { <<m, o>> : m \in LMn, o \in LOps }
Listings == ListingsOver(Bodies, 0, MaxListing)

\* ---- tier constants (selected by the .cfg files with <-) ------------------
Q_PMn  == {"a", "ab"}
Q_POps == {<<>>, <<"x">>, <<"xy">>, <<"x", "y">>}
Q_LMn  == {"a", "ab", "b"}
Q_LOps == {<<>>, <<"x">>, <<"xy">>, <<"y">>, <<"x", "y">>, <<"y", "x">>, <<"%x", "xy", "y">>}
T_PMn  == {"a", "ab", "ba"}
T_POps == {<<>>, <<"x">>, <<"xy">>, <<"%x">>, <<"x", "y">>, <<"xy", "x">>, <<"x", "x", "y">>, <<"0">>}
T_LMn  == {"a", "ab", "b", "ba"}
T_LOps == {<<>>, <<"x">>, <<"xy">>, <<"y">>, <<"%x">>, <<"x", "y">>, <<"y", "x">>, <<"xy", "x">>,
           <<"%x", "xy", "y">>, <<"x", "x", "y">>, <<"x", "x", "y", "x">>, <<"0x0">>, <<"10">>}

Universe == [patterns |-> SetToSeq(Patterns), listings |-> SetToSeq(Listings)]
\* names are literal text: an upper-case name is not its lower-case spelling
CaseItems == { PIns(m, LitOps(o)) : m \in {"A", "a"}, o \in {<<>>, <<"X">>, <<"x">>} }
CasePatterns == { PAnd(s) : s \in SeqsBetween(CaseItems, 1, 2) }
CaseListings == ListingsOver({ <<m, o>> : m \in {"a", "A"}, o \in {<<>>, <<"x">>, <<"X">>} }, 0, 2)
UniverseCase == [patterns |-> SetToSeq(CasePatterns), listings |-> SetToSeq(CaseListings)]
=============================================================================
