------------------------------- MODULE U_C01 -------------------------------
(***************************************************************************)
(* Universe of C01: item-sequence patterns over literal names with the     *)
(* near-miss relations the statement names:                                *)
(*   mnemonic names   a occurs in ab, ab equals ab, b/ab, ba never         *)
(*   operand names    x occurs in xy and %x; y only in xy                  *)
(*   operand position k-th vs (k+1)-th, fewer operands than the item       *)
(*   windows          at the start, in the middle, one instruction short   *)
(***************************************************************************)
EXTENDS JasmUniverse
CONSTANTS MaxItems, MaxListing, PMn, POps, LMn, LOps

ItemsP == { PIns(m, LitOps(o)) : m \in PMn, o \in POps }
Patterns == { PAnd(s) : s \in SeqsBetween(ItemsP, 1, MaxItems) }
Bodies == { <<m, o>> : m \in LMn, o \in LOps }
Listings == ListingsOver(Bodies, 0, MaxListing)

\* ---- tier constants (selected by the .cfg files with <-) ------------------
Q_PMn  == {"a", "ab"}
Q_POps == {<<>>, <<"x">>, <<"xy">>, <<"x", "y">>}
Q_LMn  == {"a", "ab", "b"}
Q_LOps == {<<>>, <<"x">>, <<"xy">>, <<"y">>, <<"x", "y">>, <<"y", "x">>, <<"%x", "xy", "y">>}
T_PMn  == {"a", "ab", "ba"}
T_POps == {<<>>, <<"x">>, <<"xy">>, <<"%x">>, <<"x", "y">>, <<"xy", "x">>, <<"x", "x", "y">>, <<"0">>}
T_LMn  == {"a", "ab", "b", "ba"}
T_LOps == {<<>>, <<"x">>, <<"xy">>, <<"y">>, <<"%x">>, <<"x", "y">>, <<"y", "x">>, <<"xy", "x">>,
           <<"%x", "xy", "y">>, <<"x", "x", "y">>, <<"x", "x", "y", "x">>, <<"0x0">>, <<"10">>}

Universe == [patterns |-> SetToSeq(Patterns), listings |-> SetToSeq(Listings)]
\* names are literal text: an upper-case name is not its lower-case spelling
CaseItems == { PIns(m, LitOps(o)) : m \in {"A", "a"}, o \in {<<>>, <<"X">>, <<"x">>} }
CasePatterns == { PAnd(s) : s \in SeqsBetween(CaseItems, 1, 2) }
CaseListings == ListingsOver({ <<m, o>> : m \in {"a", "A"}, o \in {<<>>, <<"x">>, <<"X">>} }, 0, 2)
\* operand names that are all digits (written quoted, or unquoted as YAML integers): literal text like any other
NumItems == { PIns("a", <<OLit(n)>>) : n \in {"16", "0", "401139"} } \cup { PIns("a", <<OLit("x"), OLit("16")>>), PIns("b", <<>>) }
NumPatterns == { PAnd(s) : s \in SeqsBetween(NumItems, 1, 2) }
NumListings == ListingsOver({ <<"a", <<o>> >> : o \in {"16", "0x10", "0", "0x0", "401139", "0x61e33"} }
                            \cup { <<"a", <<"x", "16">> >>, <<"a", <<"x", "0x10">> >>, <<"b", <<>> >> }, 0, 2)
UniverseNum == [patterns |-> SetToSeq(NumPatterns), listings |-> SetToSeq(NumListings)]
UniverseCase == [patterns |-> SetToSeq(CasePatterns), listings |-> SetToSeq(CaseListings)]
=============================================================================
