SPECIFICATION Spec
CONSTANTS
  Rules <- RuleIds
  Cfg <- CfgTable
  Atomic = TRUE
  MaxOps = 0
CHECK_DEADLOCK FALSE
