SPECIFICATION Spec
CONSTANTS
  Ranges <- Q_Ranges
  Targets <- Q_Targets
  MaxDigits = 3
INVARIANT C18_Design
CHECK_DEADLOCK FALSE
