SPECIFICATION Spec
CONSTANTS
  MaxEdits = 3
  MaxLen = 6
INVARIANT Derived
PROPERTY C16_EditKeepsStream
CHECK_DEADLOCK FALSE
