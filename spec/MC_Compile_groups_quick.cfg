SPECIFICATION Spec
CONSTANTS
  Scheme = "fixed"
  MaxL = 2
  Part = "groups"
INVARIANT CompileRefines
CHECK_DEADLOCK FALSE
