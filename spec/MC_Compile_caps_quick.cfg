SPECIFICATION Spec
CONSTANTS
  Scheme = "fixed"
  MaxL = 2
  Part = "caps"
INVARIANT CompileRefines
CHECK_DEADLOCK FALSE
