INIT Init
NEXT Next
CONSTANT Pairs = {"found", "many", "none", "fail", "macro", "dup", "range", "wrongkind", "notalisting", "long", "crowd"}
