INIT Init
NEXT Next
CONSTANTS
  MaxT = 3
  MaxGroupT = 3
  MaxBody = 6
