----------------------------- MODULE Export_C19 -----------------------------
EXTENDS U_C19, Json, IOUtils
ASSUME JsonSerialize(IOEnv.JASM_OUT, Universe)
VARIABLE x
Init == x = 0
Next == x' = x
=============================================================================
