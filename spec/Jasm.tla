--------------------------------- MODULE Jasm ---------------------------------
(***************************************************************************)
(* Composition: one compile-and-match operation end to end, as the stages  *)
(* of DESIGN section 1, each stage being the corresponding module's        *)
(* function, in ONE state space:                                           *)
(*                                                                         *)
(*   LoadRule      g' = CfgOf(config section)               (JasmSession)  *)
(*   MacroPass*    one sweep per definition, then MacroCheck (JasmMacroPass)*)
(*   BuildTree     pat' = Parse(expanded document)          (JasmSyntax)   *)
(*   EmitRegex     rx'  = Compile(pat, flags of g)          (JasmCompile)  *)
(*   ParseListing  stream' = Encode(Stream(listing))        (JasmObjdump)  *)
(*   Scan          leftmost non-overlapping regex matches   (JasmRegex)    *)
(*   Return        found / notfound / error                                *)
(*                                                                         *)
(* The end-to-end invariant ties the implementation-shaped design models   *)
(* (pass algorithm, compile scheme, regex scan over the encoded stream) to *)
(* the property-level reference (InlineRef, Parse, MI over the instruction *)
(* list): whatever the pipeline returns is what the reference semantics    *)
(* says about the rule as written and the listing as printed.              *)
(***************************************************************************)
EXTENDS JasmSyntax, JasmCompile, JasmObjdump, JasmMacroPass

\* rule document: [cfgmfm, cfgofm: "T"/"F"/"-", macros: Seq(MacroDef), pattern: Doc]
CONSTANTS RuleDocs, Listings      \* Listings: sequences of Line records (JasmObjdump)

VARIABLES stage, rule, listing, g, pat, rx, stream, found
\* (orig, defs, doc, rm, i, outcome are the variables of JasmMacroPass; `outcome' is shared)
allvars == <<stage, rule, listing, g, pat, rx, stream, found, outcome, orig, defs, doc, rm, i>>

GOf(r) == [mfm |-> (r.cfgmfm = "T"), ofm |-> (r.cfgofm = "T")]

JInitFor(r, ls) ==
    /\ rule = r /\ listing = ls
    /\ stage = "LoadRule" /\ g = [mfm |-> FALSE, ofm |-> FALSE]
    /\ pat = ErrNode("none") /\ rx = REmpty /\ stream = "" /\ found = FALSE
    /\ orig = rule.pattern /\ defs = rule.macros /\ doc = Top(rule.pattern) /\ rm = {} /\ i = 1
    /\ outcome = "running"
JInit == \E r \in RuleDocs, ls \in Listings : JInitFor(r, ls)

LoadRule ==
    /\ stage = "LoadRule" /\ outcome = "running"
    /\ g' = GOf(rule)
    /\ outcome' = IF BadMacroNames(rule.macros) # {} THEN "error" ELSE "running"
    /\ stage' = IF rule.macros = <<>> THEN "BuildTree" ELSE "MacroExpand"     \* no definitions in play: no expansion at all
    /\ UNCHANGED <<rule, listing, pat, rx, stream, found, orig, defs, doc, rm, i>>

Expand ==
    /\ stage = "MacroExpand" /\ outcome = "running"
    /\ (MacroPass \/ MacroCheck)
    /\ stage' = IF outcome' = "ok" THEN "BuildTree" ELSE stage
    /\ UNCHANGED <<rule, listing, g, pat, rx, stream, found>>

BuildTree ==
    /\ stage = "BuildTree" /\ outcome \in {"running", "ok"}
    /\ LET P == Parse(ValAt(doc, "$and")) IN
         /\ pat' = P
         /\ outcome' = IF HasErr(P) THEN "error" ELSE "running"
    /\ stage' = "EmitRegex"
    /\ UNCHANGED <<rule, listing, g, rx, stream, found, orig, defs, doc, rm, i>>

EmitRegex ==
    /\ stage = "EmitRegex" /\ outcome = "running"
    /\ rx' = Compile(pat, Cx(<<>>, g.mfm, g.ofm))
    /\ stage' = "ParseListing"
    /\ UNCHANGED <<rule, listing, g, pat, stream, found, outcome, orig, defs, doc, rm, i>>

ParseListing ==
    /\ stage = "ParseListing" /\ outcome = "running"
    /\ stream' = Encode(Stream(listing))
    /\ stage' = "Scan"
    /\ UNCHANGED <<rule, listing, g, pat, rx, found, outcome, orig, defs, doc, rm, i>>

\* regex.search: is there a position from which the regex matches?
Scan ==
    /\ stage = "Scan" /\ outcome = "running"
    /\ found' = \E q \in 1..(Len(stream) + 1) : M(rx, stream, q, EmptyEnv) # {}
    /\ stage' = "Return"
    /\ UNCHANGED <<rule, listing, g, pat, rx, stream, outcome, orig, defs, doc, rm, i>>

Return ==
    /\ stage = "Return" /\ outcome = "running"
    /\ outcome' = IF found THEN "found" ELSE "notfound"
    /\ UNCHANGED <<stage, rule, listing, g, pat, rx, stream, found, orig, defs, doc, rm, i>>

JNext == LoadRule \/ Expand \/ BuildTree \/ EmitRegex \/ ParseListing \/ Scan \/ Return
JSpec == JInit /\ [][JNext]_allvars

\* ---- the reference: what the rule as written means on the listing as printed ----------------
RefPattern(r) == Parse(InlineRef(r.pattern, r.macros))
RefScope(r) ==      \* inside the scope of the pattern semantics and of the supported macro forms
    LET P == RefPattern(r) IN ~HasErr(P) /\ ~Nullable(P) /\ CapsOnSpine(P) /\ ~MustFail(r.pattern, r.macros)
RefFound(r, ls) == Found(RefPattern(r), Cx(Stream(ls), r.cfgmfm = "T", r.cfgofm = "T"))

EndToEnd ==
    /\ (outcome \in {"found", "notfound"} /\ RefScope(rule)) => ((outcome = "found") <=> RefFound(rule, listing))
    \* C19 / C17 through the whole pipeline: an unresolved reference or a bad macro name never yields a verdict
    /\ (outcome \in {"found", "notfound"} /\ rule.macros # <<>>) => ~MustFail(rule.pattern, rule.macros)
=============================================================================
