INIT Init
NEXT Next
CONSTANTS
  PBase <- T_PBase
  PIndex <- T_PIndex
  PDisp <- T_PDisp
  OBase <- T_OBase
  OIndex <- T_OIndex
  ODisp <- T_ODisp
