----------------------------- MODULE Export_Jasm -----------------------------
(* The universe of MC_Jasm as JSON: rule documents (Doc trees) and listings   *)
(* (text printed by LineText), in the order Trace_Jasm indexes them.          *)
EXTENDS MC_Jasm, SequencesExt, Json, IOUtils
DocSeq == SetToSeq(Docs)
LstSeq == SetToSeq(Lsts)
DocSeq2 == SetToSeq(Docs2)
LstSeq2 == SetToSeq(Lsts2)
ASSUME JsonSerialize(IOEnv.JASM_OUT, [docs |-> DocSeq, texts |-> [n \in DOMAIN LstSeq |-> ListingLines(LstSeq[n])],
                                      docs2 |-> DocSeq2, texts2 |-> [n \in DOMAIN LstSeq2 |-> ListingLines(LstSeq2[n])]])
VARIABLE x
XInit == x = 0 /\ stage = 0 /\ rule = 0 /\ listing = 0 /\ g = 0 /\ pat = 0 /\ rx = 0 /\ stream = 0 /\ found = 0
        /\ outcome = 0 /\ orig = 0 /\ defs = 0 /\ doc = 0 /\ rm = 0 /\ i = 0
XNext == UNCHANGED <<x, allvars>>
=============================================================================
