------------------------------- MODULE MC_C02 -------------------------------
(***************************************************************************)
(* Design-level check of C02 on the universe of U_C02: a node with bounds  *)
(* lo..hi matches, from every position, exactly what the un-repeated node  *)
(* written r times in a row matches for some lo <= r <= hi; `min: 0' lets   *)
(* it be absent; every repetition consumes what one occurrence consumes.   *)
(***************************************************************************)
EXTENDS U_C02
VARIABLES r, l, res
vars == <<r, l, res>>

Once(x) == WithTimes(x, 1, 1)
Holds(x, L) ==
    LET cx == Cx(L, FALSE, FALSE) IN
    \A i \in 1..(Len(L) + 1) :
        /\ MI(x, cx, i, {}) = UNION { MIS(Rep(Once(x), n), cx, i, {}) : n \in x.lo..x.hi }
        /\ (x.lo = 0 => <<i, {}>> \in MI(x, cx, i, {}))
        \* the ends reachable with n repetitions are the ends reachable by chaining single occurrences
        /\ \A n \in x.lo..x.hi : n > 0 =>
              { e[1] : e \in MIN(x, cx, i, {}, n) } =
              UNION { { e[1] : e \in MI(Once(x), cx, m[1], {}) } : m \in MIN(x, cx, i, {}, n - 1) }

Init == r \in Repeated /\ l \in Listings /\ res = "?"
Next == res = "?" /\ res' = (IF Holds(r, l) THEN "ok" ELSE "bad") /\ UNCHANGED <<r, l>>
Spec == Init /\ [][Next]_vars
C02_Unroll == res # "bad"
=============================================================================
