INIT Init
NEXT Next
CONSTANT Scheme = "fixed"
