----------------------------- MODULE Export_C01 -----------------------------
EXTENDS U_C01, Json, IOUtils
ASSUME JsonSerialize(IOEnv.JASM_OUT, [m |-> Universe, c |-> UniverseCase, n |-> UniverseNum])
VARIABLE x
Init == x = 0
Next == x' = x
=============================================================================
