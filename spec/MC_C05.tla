------------------------------- MODULE MC_C05 -------------------------------
(***************************************************************************)
(* Design-level check of C05 (C05_Subst): for patterns whose capture       *)
(* definitions lie on the exactly-once spine, the environment-threading    *)
(* matcher finds the pattern iff SOME assignment of values to the capture  *)
(* names makes the capture-free instance of the pattern match -- i.e. all  *)
(* occurrences of a name denote one text (instruction / operand) or one    *)
(* architectural register, and different names are independent.            *)
(***************************************************************************)
EXTENDS U_C05
VARIABLES u, p, l, res
vars == <<u, p, l, res>>

RECURSIVE Subst(_, _)
Subst(q, asg) ==
    LET ks == [n \in DOMAIN q.kids |-> Subst(q.kids[n], asg)] IN
    CASE q.k = "icap" -> [Node("xins", asg[q.name][1], [n \in DOMAIN asg[q.name][2] |-> Node("oexact", asg[q.name][2][n], <<>>, 1, 1)], 1, 1)
                            EXCEPT !.lo = q.lo, !.hi = q.hi]
      [] q.k = "ocap" -> Node("oexact", asg[q.name], <<>>, 1, 1)
      [] q.k = "rcap" -> [RNode("rexact", asg[q.name], q.fam, q.w) EXCEPT !.lo = 1]
      [] OTHER -> [q EXCEPT !.kids = ks]

\* kind of each capture name of P
RECURSIVE KindOf(_, _)
KindOf(q, n) ==
    IF q.k \in {"icap", "ocap", "rcap"} /\ q.name = n THEN {<<q.k, q.fam>>}
    ELSE UNION { KindOf(q.kids[m], n) : m \in DOMAIN q.kids }
Values(P, L, n) ==
    LET kf == CHOOSE x \in KindOf(P, n) : TRUE IN
    CASE kf[1] = "icap" -> { <<L[m].mn, L[m].ops>> : m \in DOMAIN L }
      [] kf[1] = "ocap" -> UNION { { L[m].ops[k] : k \in DOMAIN L[m].ops } : m \in DOMAIN L }
      [] OTHER -> FamRegs(kf[2])
Assignments(P, L) ==
    LET ns == CapNames(P) IN
    { f \in [ns -> UNION { Values(P, L, n) : n \in ns }] : \A n \in ns : f[n] \in Values(P, L, n) }

Holds(P, L) ==
    \A fl \in {<<FALSE, FALSE>>, <<TRUE, TRUE>>} :
      LET cx == Cx(L, fl[1], fl[2]) IN
      \A i \in 1..(Len(L) + 1) :
        { e[1] : e \in MI(P, cx, i, {}) }
          = UNION { { e[1] : e \in MI(Subst(P, asg), cx, i, {}) } : asg \in Assignments(P, L) }

Init == /\ u \in {"i", "o", "r"}
        /\ p \in (CASE u = "i" -> PatternsI [] u = "o" -> PatternsO [] OTHER -> PatternsR)
        /\ l \in (CASE u = "i" -> ListingsI [] u = "o" -> ListingsO [] OTHER -> ListingsR)
        /\ res = "?"
Next == res = "?" /\ res' = (IF Holds(p, l) THEN "ok" ELSE "bad") /\ UNCHANGED <<u, p, l>>
Spec == Init /\ [][Next]_vars
C05_Subst == res # "bad"
=============================================================================
