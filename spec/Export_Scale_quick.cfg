INIT Init
NEXT Next
CONSTANT MaxPow = 13
