------------------------------ MODULE JasmMacro ------------------------------
(***************************************************************************)
(* Rule documents as trees, macro definitions, and the property-level      *)
(* meaning of a macro use (C13, C19): reference inlining.                  *)
(*                                                                         *)
(* Doc nodes are records with one uniform field set:                       *)
(*   str  s          a YAML string                                          *)
(*   int  i          a YAML integer                                         *)
(*   null            a YAML null                                            *)
(*   list items      a YAML sequence                                        *)
(*   map  items      a YAML mapping, items = sequence of pair nodes         *)
(*   pair s items    one key (s) with its value (items[1])                  *)
(***************************************************************************)
EXTENDS JasmText

DNode(t, s, i, items) == [t |-> t, s |-> s, i |-> i, items |-> items]
DStr(s)    == DNode("str", s, 0, <<>>)
DInt(i)    == DNode("int", "", i, <<>>)
DNull      == DNode("null", "", 0, <<>>)
DList(xs)  == DNode("list", "", 0, xs)
DPair(k, v) == DNode("pair", k, 0, <<v>>)
DMap(ps)   == DNode("map", "", 0, ps)
\* {k: v}
DMap1(k, v) == DMap(<<DPair(k, v)>>)

HasKey(d, k) == d.t = "map" /\ \E n \in DOMAIN d.items : d.items[n].s = k
ValAt(d, k)  == d.items[CHOOSE n \in DOMAIN d.items : d.items[n].s = k].items[1]
Keys(d)      == { d.items[n].s : n \in DOMAIN d.items }

\* macro definition: name, formal parameters, body (a str Doc, or a list Doc of one element)
MacroDef(name, args, body) == [name |-> name, args |-> args, body |-> body]
IsStrMacro(m) == m.body.t = "str"
BodyOf(m) == IF m.body.t = "list" THEN m.body.items[1] ELSE m.body
IsMacroName(s) == IsPrefixStr("@", s)

\* replace the first occurrence of `old' in s (macro names occur at most once in a name)
ReplaceFirst(s, old, new) ==
    LET p == FindFrom(old, s, 1) IN
    IF p = 0 THEN s ELSE SubSeq(s, 1, p - 1) \o new \o DropStr(s, p + Len(old) - 1)

(***************************************************************************)
(* Simultaneous substitution of actual for formal parameters in a body.    *)
(***************************************************************************)
RECURSIVE SubstArgs(_, _, _)
SubstArgs(d, formals, actual) ==      \* actual: function formal -> Doc
    CASE d.t = "str" -> IF d.s \in formals THEN actual[d.s] ELSE d
      [] d.t \in {"list", "map", "pair"} ->
            [d EXCEPT !.items = [n \in DOMAIN d.items |-> SubstArgs(d.items[n], formals, actual)]]
      [] OTHER -> d

(***************************************************************************)
(* InlineRef: every use replaced by the body, arguments substituted, to a  *)
(* fixed point (bodies may use macros listed later).  M is the sequence of *)
(* all definitions in play (extra macro files first, then the rule file).  *)
(***************************************************************************)
MacroNamed(M, s) == M[CHOOSE n \in DOMAIN M : M[n].name = s]
Defined(M, s) == \E n \in DOMAIN M : M[n].name = s
\* a string macro whose name occurs inside the longer string s
InfixMacros(M, s) == { n \in DOMAIN M : IsStrMacro(M[n]) /\ M[n].name # s /\ IsInfixStr(M[n].name, s) }

RECURSIVE Inl(_, _, _)
Inl(d, M, fuel) ==
    IF fuel = 0 THEN d
    ELSE CASE d.t = "str" ->
                IF Defined(M, d.s) THEN Inl(BodyOf(MacroNamed(M, d.s)), M, fuel - 1)
                ELSE IF InfixMacros(M, d.s) # {}
                     THEN LET m == M[CHOOSE n \in InfixMacros(M, d.s) : TRUE] IN
                          Inl(DStr(ReplaceFirst(d.s, m.name, m.body.s)), M, fuel - 1)
                ELSE d
           [] d.t = "map" /\ \E k \in Keys(d) : Defined(M, k) ->
                LET k == CHOOSE k \in Keys(d) : Defined(M, k)
                    m == MacroNamed(M, k)
                    v == ValAt(d, k)
                IN IF IsStrMacro(m)
                   THEN \* `@m: {times: ...}` -> `body: {times: ...}`
                        Inl(DMap1(m.body.s, v), M, fuel - 1)
                   ELSE LET formals == { m.args[n] : n \in DOMAIN m.args }
                            given   == { f \in formals : HasKey(d, f) }
                            actual  == [f \in given |-> ValAt(d, f)]
                        IN Inl(SubstArgs(BodyOf(m), given, actual), M, fuel - 1)
           [] d.t \in {"list", "map", "pair"} ->
                [d EXCEPT !.items = [n \in DOMAIN d.items |-> Inl(d.items[n], M, fuel)]]
           [] OTHER -> d
InlineRef(d, M) == Inl(d, M, 8)

\* every string of a tree that still looks like a macro reference (in any position, keys included)
RECURSIVE AtNames(_)
AtNames(d) ==
    (IF d.t \in {"str", "pair"} /\ IsMacroName(d.s) THEN {d.s} ELSE {})
    \cup UNION { AtNames(d.items[n]) : n \in DOMAIN d.items }
\* the references of a rule that have no definition after inlining
Unresolved(d, M) == AtNames(InlineRef(d, M))
BadMacroNames(M) == { M[n].name : n \in { n \in DOMAIN M : ~IsMacroName(M[n].name) } }

(***************************************************************************)
(* C19 at the level of outcomes: a compilation either fails (and then must  *)
(* name an unresolved reference or a bad macro name if that is the reason), *)
(* or succeeds with a tree that holds no @name.                             *)
(***************************************************************************)
MustFail(d, M) == Unresolved(d, M) # {} \/ BadMacroNames(M) # {}
=============================================================================
