SPECIFICATION Spec
CONSTANTS
  Rules <- RuleIds
  Cfg <- CfgTable
  Atomic = FALSE
  MaxOps = 2
INVARIANT C14_OwnConfig
CHECK_DEADLOCK FALSE
