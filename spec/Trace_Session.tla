--------------------------- MODULE Trace_Session ---------------------------
(***************************************************************************)
(* Trace validation of histories of complete operations (C14).             *)
(*                                                                         *)
(* One trace = one real process; one event per operation, cut at the       *)
(* public call's return: the rule, the global configuration read back      *)
(* through JASMConfig().get_info right after construction, the results of  *)
(* all modes, and the results of the same operation performed first in a   *)
(* fresh process.  The trace specification re-uses the actions of          *)
(* JasmSession: an event is explained by Construct(r) followed by Match(h) *)
(* with the logged configuration bound to g.                               *)
(***************************************************************************)
EXTENDS MC_C14, JasmText, Json, IOUtils

Traces == JsonDeserialize(IOEnv.JASM_CASES).traces

VARIABLES tid, l, verdict
tvars == <<tid, l, verdict, g, pending, hist, lastEff>>

Ev == Traces[tid][l]
\* the configuration as the code reports it, in the spec's terms
\* a full-match flag is in force iff the stored value is True (absent / None / False: substring matching)
Logged(e) == [mfm |-> (e.g.mfm = "True"), ofm |-> (e.g.ofm = "True"), style |-> e.g.style,
              range |-> e.g.range, sections |-> e.g.sections]
SameCfg(x, y) == /\ x.mfm = y.mfm /\ x.ofm = y.ofm /\ x.style = y.style /\ x.sections = y.sections
                 /\ Len(x.range) = Len(y.range)
                 /\ \A n \in DOMAIN x.range : HexNorm(x.range[n]) = HexNorm(y.range[n])

TraceInit == tid \in DOMAIN Traces /\ l = 1 /\ verdict = "run" /\ Init

\* first half of an event: the rule is loaded and compiled
TConstruct ==
    /\ verdict = "run" /\ l <= Len(Traces[tid]) /\ pending = {}
    /\ Ev.outcome = "ok"
    /\ Construct(Ev.rule)
    /\ SameCfg(Logged(Ev), g')
    /\ UNCHANGED <<tid, l, verdict>>
\* second half: the match runs under its own rule's configuration and gives the fresh-process result
TMatch ==
    /\ verdict = "run" /\ l <= Len(Traces[tid]) /\ pending # {}
    /\ \E h \in pending : Match(h)
    /\ lastEff'.eff = CfgOf(Cfg[Ev.rule])
    /\ Ev.res = Ev.fresh
    /\ Ev.res1 = Ev.res2          \* a second call on the same object is an "earlier run" too
    /\ l' = l + 1
    /\ UNCHANGED <<tid, verdict>>
Reject ==
    /\ verdict = "run" /\ l <= Len(Traces[tid])
    /\ ~ENABLED TConstruct /\ ~ENABLED TMatch
    /\ verdict' = (IF Ev.outcome # "ok" THEN "rej:C14_OperationFailed"
                   ELSE IF pending = {} THEN "rej:C14_ConfigIsNotTheRules"
                   ELSE IF Ev.res # Ev.fresh THEN "rej:C14_DiffersFromFreshProcess"
                   ELSE IF Ev.res1 # Ev.res2 THEN "rej:C14_SecondCallOnTheSameObjectDiffers"
                   ELSE "rej:C14_OwnConfig")
    /\ UNCHANGED <<tid, l, g, pending, hist, lastEff>>
Accept ==
    /\ verdict = "run" /\ l > Len(Traces[tid])
    /\ verdict' = "ok"
    /\ UNCHANGED <<tid, l, g, pending, hist, lastEff>>
TraceNext == TConstruct \/ TMatch \/ Reject \/ Accept
TraceSpec == TraceInit /\ [][TraceNext]_tvars
\* the invariants of the specification are evaluated in every state of every trace
TraceInv == C14_OwnConfig /\ C14_Inductive
=============================================================================
