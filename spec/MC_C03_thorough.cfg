SPECIFICATION Spec
CONSTANTS
  Depth2 = "full"
  MaxListing = 4
INVARIANT C03_Laws
CHECK_DEADLOCK FALSE
