------------------------------- MODULE U_C18 -------------------------------
(***************************************************************************)
(* Universe of C18: ranges with min = max, bounds with and without 0x,     *)
(* upper and lower case digits, leading zeros, 1 to 9 digits; targets at   *)
(* min-1, min, max, max+1 and with other digit counts; direct call / jmp,  *)
(* conditional jumps, indirect forms, non-branches with a hex-looking      *)
(* first operand, operand-less instructions; with and without the option.  *)
(***************************************************************************)
EXTENDS JasmPattern, JasmObserve, SequencesExt
CONSTANTS Ranges, Targets

I(m) == PIns(m, <<>>)
V == OLit(TagOperand)
Patterns == { PAnd(<<PIns("call", <<V>>)>>), PAnd(<<PIns("jmp", <<V>>)>>), PAnd(<<PIns("j", <<V>>)>>),
              PAnd(<<PIns("mov", <<V>>)>>), PAnd(<<PIns("c", <<>>)>>),
              PAnd(<<PIns("call", <<V>>), I("ret")>>) }
AddrT == <<"401000", "401005", "40100a", "40100f">>
Bodies == { <<"call", <<t>> >> : t \in Targets } \cup { <<"jmp", <<t>> >> : t \in Targets }
     \cup { <<"jne", <<t>> >> : t \in Targets } \cup { <<"mov", <<t, "%rax">> >> : t \in Targets }
     \cup { <<"call", <<"*%rax">> >>, <<"call", <<"[%rax+*0x8]">> >>, <<"jmp", <<"*0x401000">> >>, <<"ret", <<>> >>,
            <<"push", <<"401000">> >>, <<"callq", <<"401000">> >> }
BodySeq == SetToSeq(Bodies)
\* every body alone, and every body followed by ret, and a few mixes
Listings == { <<Ins(AddrT[1], b[1], b[2])>> : b \in Bodies }
       \cup { <<Ins(AddrT[1], b[1], b[2]), Ins(AddrT[2], "ret", <<>>)>> : b \in Bodies }
       \cup { <<Ins(AddrT[1], "call", <<"*%rax">>), Ins(AddrT[2], b[1], b[2]), Ins(AddrT[3], "jmp", <<"401000">>)>> : b \in Bodies }
       \* a non-branch whose whole operand text equals a direct branch's (self-modifying code in a stripped binary:
       \* `jmp 0x401013' ... `decb 0x401013'), before and after the branch
       \cup { <<Ins(AddrT[1], "incb", <<t>>), Ins(AddrT[2], m, <<t>>), Ins(AddrT[3], "decb", <<t>>), Ins(AddrT[4], "ret", <<>>)>> :
               t \in Targets, m \in {"call", "jmp"} }

Q_Ranges == { <<"0x401000", "0x401010">>, <<"401000", "401010">>, <<"0x401000", "0x401000">>, <<"0x000401000", "0x40100A">>,
              <<"0x0", "0xffffffffffffffff">>, <<"0x1000", "0x180FFFFFF">>,
              <<"0x400000", "0x10000000">>, <<"401000", "0x401010">> }
Q_Targets == {"400fff", "401000", "401008", "401010", "401011", "40100a", "40100b", "1000", "fff", "180ffffff", "181000000",
              "0x401000", "4010100", "40100", "0", "0x0"}
T_Ranges == Q_Ranges \cup { <<"0x401010", "0x401000">>, <<"7fffffffffff", "0x800000000000">>, <<"f", "10">> }
T_Targets == Q_Targets \cup {"7fffffffffff", "800000000000", "800000000001", "f", "10", "11", "e", "0x180ffffff", "0"}

Universe == [patterns |-> SetToSeq(Patterns), listings |-> SetToSeq(Listings),
             ranges |-> SetToSeq(Ranges)]
=============================================================================
