SPECIFICATION Spec
CONSTANTS
  MaxListing = 3
  RegWidths <- QuickWidths
INVARIANT C05_Subst
CHECK_DEADLOCK FALSE
