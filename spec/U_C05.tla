------------------------------- MODULE U_C05 -------------------------------
(***************************************************************************)
(* Universe of C05: capture groups.  Every pattern satisfies CapsOnSpine   *)
(* (first occurrences on the executed-exactly-once spine); later           *)
(* occurrences also sit inside $or, $not and repeated items.  Operand      *)
(* texts form prefix/extension chains (0x1 / 0x10, %r8 / %r8d), register   *)
(* operands cover every family at every width.                             *)
(***************************************************************************)
EXTENDS JasmUniverse
CONSTANTS MaxListing, RegWidths

I(m) == PIns(m, <<>>)
C(n) == PICap(n)
\* ---- instruction captures --------------------------------------------------
PatternsI ==
    { PAnd(<<C("i"), C("i")>>), PAnd(<<C("i"), I("p"), C("i")>>), PAnd(<<C("i"), C("j"), C("i")>>),
      PAnd(<<C("i"), C("j"), C("j"), C("i")>>), PAnd(<<C("i"), PNot(C("i"))>>),
      PAnd(<<C("i"), POr(<<C("i"), I("p")>>)>>), PAnd(<<C("i"), WithTimes(PAnd(<<C("i")>>), 2, 2)>>),
      PAnd(<<I("p"), C("i"), C("j")>>), PAnd(<<C("i"), C("j"), PNot(C("i")), C("j")>>),
      PAnd(<<C("i"), I("a"), C("i")>>) }
BodiesI == { <<"a", <<>> >>, <<"a", <<"x">> >>, <<"a", <<"x", "y">> >>, <<"ab", <<"x">> >>, <<"p", <<>> >> }
ListingsI == ListingsOver(BodiesI, 0, MaxListing)

\* ---- operand captures ------------------------------------------------------
X == OCap("x")  Y == OCap("y")
PatternsO ==
    { PAnd(<<PIns("m", <<X>>), PIns("n", <<X>>)>>),
      PAnd(<<PIns("m", <<X, X>>)>>),
      PAnd(<<PIns("m", <<X, Y>>), PIns("n", <<Y, X>>)>>),
      PAnd(<<PIns("m", <<X>>), PIns("n", <<Y, X>>)>>),
      PAnd(<<PIns("m", <<X>>), PIns("n", <<OOr(<<X, OLit("0x10")>>)>>)>>),
      PAnd(<<PIns("m", <<X>>), PIns("n", <<ONot(X)>>)>>),
      PAnd(<<PIns("m", <<X>>), PNot(PIns("n", <<X>>)), PIns("n", <<X>>)>>),
      PAnd(<<PIns("m", <<X, Y>>), PIns("n", <<X>>), PIns("n", <<Y>>)>>),
      PAnd(<<PIns("m", <<OLit("%r8"), X>>), PIns("n", <<X, OLit("%r8")>>)>>),
      PAnd(<<PIns("m", <<X>>), PInsT("n", <<X>>, 2, 2)>>),
      \* two names that differ only in the case of a letter are different names
      PAnd(<<PIns("m", <<X, OCap("X")>>), PIns("n", <<OCap("X"), X>>)>>),
      PAnd(<<PIns("m", <<OCap("X")>>), PIns("n", <<X, OCap("X")>>)>>) }
Chain == {"0x1", "0x10", "%r8", "%r8d"}
OpsM == SeqsBetween(Chain, 1, 2)
OpsN == SeqsBetween(Chain, 1, 2)
\* m first, then one or two n (or an m in between for the $not pattern)
ListingsO == { WithAddrs(<< <<"m", o1>>, <<"n", o2>> >>) : o1 \in OpsM, o2 \in OpsN }
        \cup { WithAddrs(<< <<"m", o1>>, <<b, o2>>, <<"n", o3>> >>)
               : o1 \in SeqsBetween(Chain, 1, 1) \cup { <<"%r8", "0x1">>, <<"0x10", "%r8d">> },
                 b \in {"m", "n"}, o2 \in SeqsBetween(Chain, 1, 1), o3 \in SeqsBetween(Chain, 1, 1) \cup { <<"0x1", "%r8">>, <<"%r8d", "0x10">> } }
        \cup { WithAddrs(<< <<"m", o1>> >>) : o1 \in OpsM }

\* ---- register-family captures ----------------------------------------------
QuickWidths == {"64", "16", "8l"}
WSuffixes == RegWidths \cup {""}
R(fam, w) == ORCap(fam \o "-1", fam, w)
FamWidths(fam) == { w \in Widths : \E r \in FamRegs(fam) : RegName(fam, r, w) # "" }
PatternsR ==
    UNION { { PAnd(<<PIns("m", <<R(fam, w1)>>), PIns("n", <<R(fam, w2)>>)>>)
              : w1 \in WSuffixes \cap (FamWidths(fam) \cup {""}), w2 \in WSuffixes \cap (FamWidths(fam) \cup {""}) }
            : fam \in Families }
    \cup { PAnd(<<PIns("m", <<R("genreg", ""), ORCap("genreg-2", "genreg", "")>>),
                 PIns("n", <<ORCap("genreg-2", "genreg", "64"), R("genreg", "32")>>)>>),
           PAnd(<<PIns("m", <<R("genreg", "")>>), PIns("n", <<OCap("o")>>), PIns("m", <<OCap("o"), R("genreg", "8l")>>)>>) }
RegOps(fam) == { "%" \o RegName(fam, r, w) : <<r, w>> \in { rw \in FamRegs(fam) \X Widths : RegName(fam, rw[1], rw[2]) # "" } }
Foreign == {"0x5", "%r8", "%r8d"}
AllRegOps == UNION { RegOps(f) : f \in Families }
ListingsR ==
    UNION { { WithAddrs(<< <<"m", <<o1>> >>, <<"n", <<o2>> >> >>) : o1 \in RegOps(fam) \cup Foreign, o2 \in RegOps(fam) \cup Foreign }
            : fam \in Families }
    \cup { WithAddrs(<< <<"m", <<o1, o2>> >>, <<"n", <<o3, o4>> >> >>)
           : <<o1, o2, o3, o4>> \in {"%rax", "%ebx"} \X {"%rbx", "%al"} \X {"%rbx", "%rax"} \X {"%eax", "%ebx"} }
    \cup { WithAddrs(<< <<"m", <<o1>> >>, <<"n", <<o2>> >>, <<"m", <<o2, o3>> >> >>)
           : <<o1, o2, o3>> \in {"%rax", "%ecx"} \X {"0x1", "%rax"} \X {"%al", "%cl", "%ax"} }

\* ---- captures inside $deref fields ------------------------------------------
\* (uses of one name stay at one level: a deref-field capture is compared with deref fields)
DF(n, fp) == Node("dfield", n, <<fp>>, 1, 1)
FC(n) == Node("fcap", n, <<>>, 1, 1)
FL(n) == Node("flit", n, <<>>, 1, 1)
DR(fs) == Node("deref", "", fs, 1, 1)
PatternsD ==
    { PAnd(<<PIns("m", <<DR(<<DF("main_reg", FC("r"))>>)>>), PIns("n", <<DR(<<DF("main_reg", FC("r"))>>)>>)>>),
      PAnd(<<PIns("m", <<DR(<<DF("main_reg", FC("r")), DF("constant_offset", FC("k"))>>)>>),
             PIns("n", <<DR(<<DF("main_reg", FC("r")), DF("constant_offset", FC("k"))>>)>>)>>),
      \* fields written in the README's order (constant_offset first)
      PAnd(<<PIns("m", <<DR(<<DF("constant_offset", FC("k")), DF("main_reg", FC("r"))>>)>>),
             PIns("n", <<DR(<<DF("main_reg", FC("r")), DF("constant_offset", FC("k"))>>)>>)>>),
      PAnd(<<PIns("m", <<DR(<<DF("main_reg", FC("r")), DF("constant_offset", FC("k"))>>)>>),
             PIns("n", <<DR(<<DF("main_reg", FL("rbx")), DF("constant_offset", FC("k"))>>)>>)>>),
      PAnd(<<PIns("m", <<DR(<<DF("main_reg", FC("r")), DF("register_multiplier", FC("i")), DF("constant_multiplier", FL("4"))>>)>>),
             PIns("n", <<DR(<<DF("main_reg", FC("i"))>>)>>)>>),
      PAnd(<<PIns("m", <<DR(<<DF("main_reg", RNode("frcap", "genreg-1", "genreg", "64"))>>)>>), PIns("n", <<R("genreg", "32")>>)>>),
      \* index register AND displacement captured in one $deref (typed in one order, emitted in another), each used again
      PAnd(<<PIns("m", <<DR(<<DF("main_reg", FL("rax")), DF("register_multiplier", FC("i")), DF("constant_multiplier", FL("4")),
                             DF("constant_offset", FC("k"))>>)>>), PIns("n", <<DR(<<DF("main_reg", FC("i"))>>)>>)>>),
      PAnd(<<PIns("m", <<DR(<<DF("constant_offset", FC("k")), DF("main_reg", FL("rax")), DF("register_multiplier", FC("i")),
                             DF("constant_multiplier", FC("c"))>>)>>),
             PIns("n", <<DR(<<DF("main_reg", FC("i")), DF("constant_offset", FC("k"))>>)>>)>>),
      \* a $deref with a constant that may be written as a YAML integer, ahead of a capture that is used again
      PAnd(<<PIns("m", <<DR(<<DF("main_reg", FL("rax")), DF("constant_offset", FL("16"))>>), OCap("v")>>), PIns("n", <<OCap("v")>>)>>),
      PAnd(<<PIns("m", <<DR(<<DF("main_reg", FL("rax")), DF("register_multiplier", FL("rbx")), DF("constant_multiplier", FL("4")),
                             DF("constant_offset", FL("24"))>>), OCap("v")>>), PIns("n", <<OCap("w")>>), PIns("n", <<OCap("v"), OCap("w")>>)>>) }
MemD == {"[%rax]", "[%rbx]", "[%rax+0x8]", "[%rbx+0x8]", "[%rax+0x10]", "[%rax+%rbx*4]", "[%rbx+%rax*4]", "%eax", "%ebx",
         "[%rax+%rbx*4+0x8]", "[%rax+%rbx*4+0x4]", "[%rbx+0x4]", "[%rax+%rbx*8+0x8]"}
ListingsD == { WithAddrs(<< <<"m", <<o1>> >>, <<"n", <<o2>> >> >>) : o1 \in MemD, o2 \in MemD }
        \cup { WithAddrs(<< <<"m", <<o1, v>> >>, <<"n", <<w>> >> >>) : o1 \in {"[%rax+0x16]", "[%rax+16]", "[%rax+0x10]"}, v \in {"%rbx", "%rcx"}, w \in {"%rbx", "%rcx"} }
        \cup { WithAddrs(<< <<"m", <<"[%rax+%rbx*4+0x24]", v>> >>, <<"n", <<w>> >>, <<"n", <<v2, w2>> >> >>)
               : v \in {"%rbx", "%rcx"}, w \in {"%rbx", "%rdx"}, v2 \in {"%rbx", "%rcx"}, w2 \in {"%rbx", "%rdx"} }

\* ---- operand-level groups mixing a $deref with later occurrences of operand captures (member order matters to
\* nothing: every member is an operand pattern of its own) -----------------------------------------------
Sp8 == DR(<<DF("main_reg", FL("%rsp")), DF("constant_offset", FL("0x8"))>>)
Sp  == DR(<<DF("main_reg", FL("%rsp"))>>)
PatternsG ==
    { PAnd(<<PIns("m", <<X, Y>>), PIns("n", <<OPerm(<<Sp8, OOr(<<X, Y>>)>>)>>)>>),
      PAnd(<<PIns("m", <<X, Y>>), PIns("n", <<OPerm(<<OOr(<<X, Y>>), Sp8>>)>>)>>),
      PAnd(<<PIns("m", <<X>>), PIns("n", <<OAnd(<<Sp8, OOr(<<X, OLit("0x1")>>)>>)>>)>>),
      PAnd(<<PIns("m", <<X>>), PIns("n", <<OAnd(<<OOr(<<X, OLit("0x1")>>), Sp8>>)>>)>>),
      PAnd(<<PIns("m", <<X>>), PIns("n", <<OOr(<<Sp, ONot(X)>>)>>)>>),
      PAnd(<<PIns("m", <<X>>), PIns("n", <<OOr(<<ONot(X), Sp>>)>>)>>),
      PAnd(<<PIns("m", <<X>>), PIns("n", <<Sp8, X>>)>>) }
RegsG == {"%r8", "%r8d", "%rax", "%r9"}
ListingsG == { WithAddrs(<< <<"m", o1>>, <<"n", o2>> >>)
               : o1 \in SeqsBetween({"%r8", "%rax"}, 1, 2),
                 o2 \in { <<"[%rsp+0x8]", v>> : v \in RegsG } \cup { <<v, "[%rsp+0x8]">> : v \in RegsG }
                        \cup { <<v>> : v \in RegsG \cup {"[%rsp]", "[%rsp+0x8]", "0x1"} } \cup { <<"[%rsp+0x8]", "0x1">>, <<"0x1", "[%rsp+0x8]">> } }
UniverseG == [patterns |-> SetToSeq(PatternsG), listings |-> SetToSeq(ListingsG)]
Universe  == [patterns |-> SetToSeq(PatternsI), listings |-> SetToSeq(ListingsI)]
UniverseD == [patterns |-> SetToSeq(PatternsD), listings |-> SetToSeq(ListingsD)]
UniverseO == [patterns |-> SetToSeq(PatternsO), listings |-> SetToSeq(ListingsO)]
UniverseR == [patterns |-> SetToSeq(PatternsR), listings |-> SetToSeq(ListingsR)]
ASSUME \A P \in PatternsI \cup PatternsO \cup PatternsR \cup PatternsD : CapsOnSpine(P)
=============================================================================
