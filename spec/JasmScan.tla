------------------------------ MODULE JasmScan ------------------------------
(***************************************************************************)
(* The scan over the instruction stream as a state machine (C07, C11,      *)
(* C12).  The set of genuine spans of the pattern on the listing is a      *)
(* parameter; which end the engine chooses for a start is left open (the   *)
(* engine's priority rules are not modelled): the scan may report any      *)
(* genuine span that starts at the leftmost position, at or after `pos',   *)
(* where some span starts.                                                 *)
(*                                                                         *)
(*   Report(s, e)  one match is reported, the scan continues at e          *)
(*   Finish        no instruction at or after pos starts a match           *)
(*                                                                         *)
(* ValidScan is the same thing as a predicate over a complete result; the  *)
(* model check MC_Scan shows that the results of complete behaviours of    *)
(* the state machine are exactly the sequences satisfying ValidScan, so    *)
(* the trace specifications may use the predicate.                          *)
(***************************************************************************)
EXTENDS Naturals, Sequences, FiniteSets

StartsIn(spans, t) == \E sp \in spans : sp[1] = t

RECURSIVE ValidScanFrom(_, _, _, _)
ValidScanFrom(spans, n, pos, rep) ==
    IF rep = <<>> THEN \A t \in pos..n : ~StartsIn(spans, t)
    ELSE LET h == Head(rep) IN
         /\ h \in spans
         /\ h[1] >= pos
         /\ \A t \in pos..(h[1] - 1) : ~StartsIn(spans, t)
         /\ ValidScanFrom(spans, n, h[2], Tail(rep))

\* all-matches mode: complete leftmost non-overlapping scan (C11)
ValidScanAll(spans, n, rep) == ValidScanFrom(spans, n, 1, rep)
\* first-match mode: the first Report of such a scan, or nothing
ValidScanFirst(spans, n, rep) ==
    \/ rep = <<>> /\ \A t \in 1..n : ~StartsIn(spans, t)
    \/ Len(rep) = 1 /\ rep[1] \in spans /\ \A t \in 1..(rep[1][1] - 1) : ~StartsIn(spans, t)

\* consequences stated in C11, as separate predicates (checked to follow)
Disjoint(rep)   == \A a, b \in DOMAIN rep : a < b => rep[a][2] <= rep[b][1]
Increasing(rep) == \A a, b \in DOMAIN rep : a < b => rep[a][1] < rep[b][1]
Genuine(spans, rep) == \A a \in DOMAIN rep : rep[a] \in spans
LeftmostFirst(spans, rep) ==
    rep # <<>> => \A sp \in spans : rep[1][1] <= sp[1]
NothingSkipped(spans, n, rep) ==
    \A t \in 1..n : StartsIn(spans, t) =>
        \E a \in DOMAIN rep : rep[a][1] <= t /\ (t < rep[a][2] \/ t = rep[a][1])

----------------------------------------------------------------------------
\* n (listing length), spans and firstOnly are fixed by the initial state
VARIABLES n, spans, firstOnly, pos, reported, done
vars == <<n, spans, firstOnly, pos, reported, done>>

InitScan == pos = 1 /\ reported = <<>> /\ done = FALSE

Report(s, e) ==
    /\ ~done
    /\ s >= pos
    /\ <<s, e>> \in spans
    /\ \A t \in pos..(s - 1) : ~StartsIn(spans, t)
    /\ reported' = Append(reported, <<s, e>>)
    /\ pos' = e
    /\ done' = firstOnly
    /\ UNCHANGED <<n, spans, firstOnly>>

Finish ==
    /\ ~done
    /\ \A t \in pos..n : ~StartsIn(spans, t)
    /\ done' = TRUE
    /\ UNCHANGED <<pos, reported, n, spans, firstOnly>>

Next == Finish \/ \E s \in 1..n, e \in 2..(n + 1) : Report(s, e)

\* result as each mode presents it (C12); addr[i] is the address of instruction i
ResultList(rep) == rep
ResultBool(rep) == rep # <<>>
ResultAddrs(rep, addr) == [a \in DOMAIN rep |-> addr[rep[a][1]]]
=============================================================================
