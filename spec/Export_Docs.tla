----------------------------- MODULE Export_Docs -----------------------------
(***************************************************************************)
(* Second export pass: reads the abstract patterns of a universe (JSON,    *)
(* env JASM_IN) and writes, for every pattern and every spelling, the rule *)
(* document tree that Unparse (JasmSyntax) gives it (env JASM_OUT).  The    *)
(* harness dumps these trees as YAML; it does not unparse patterns itself  *)
(* (harness/render.py keeps an independent unparser only as a cross-check). *)
(***************************************************************************)
EXTENDS JasmSyntax, JasmCompile, Json, IOUtils
In == JsonDeserialize(IOEnv.JASM_IN)
Sp(t, u) == [times |-> t, upper |-> u, ints |-> FALSE]
ASSUME JsonSerialize(IOEnv.JASM_OUT,
          [docs |-> [n \in DOMAIN In.patterns |->
                       [body  |-> Unparse(In.patterns[n], Sp("body", FALSE)),
                        sib   |-> Unparse(In.patterns[n], Sp("sib", FALSE)),
                        upper |-> Unparse(In.patterns[n], Sp("body", TRUE)),
                        ints  |-> Unparse(In.patterns[n], [times |-> "body", upper |-> FALSE, ints |-> TRUE]),
                        back  |-> Parse(Unparse(In.patterns[n], Sp("body", FALSE))) = In.patterns[n],
                        \* the regex text the compile-scheme model (JasmCompile) predicts, per flag setting
                        rx    |-> [ff |-> RText(Compile(In.patterns[n], Cx(<<>>, FALSE, FALSE))),
                                   ft |-> RText(Compile(In.patterns[n], Cx(<<>>, FALSE, TRUE))),
                                   tf |-> RText(Compile(In.patterns[n], Cx(<<>>, TRUE, FALSE))),
                                   tt |-> RText(Compile(In.patterns[n], Cx(<<>>, TRUE, TRUE)))]]]])
VARIABLE x
Init == x = 0
Next == x' = x
=============================================================================
