SPECIFICATION Spec
INVARIANT C15_Design
CHECK_DEADLOCK FALSE
