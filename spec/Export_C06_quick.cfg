INIT Init
NEXT Next
CONSTANTS
  PBase <- Q_PBase
  PIndex <- Q_PIndex
  PDisp <- Q_PDisp
  OBase <- Q_OBase
  OIndex <- Q_OIndex
  ODisp <- Q_ODisp
