SPECIFICATION Spec
CONSTANTS
  Depth2 = "ab"
  MaxListing = 3
INVARIANT C03_Laws
CHECK_DEADLOCK FALSE
