------------------------------ MODULE JasmSyntax ------------------------------
(***************************************************************************)
(* The concrete document grammar of a rule: how a YAML document tree (Doc, *)
(* JasmMacro) is read as an abstract pattern (JasmPattern), and its         *)
(* inverse.                                                                *)
(*                                                                         *)
(*   Parse(doc)          Doc (the `pattern' list) -> pattern | error       *)
(*   Unparse(p, sp)      pattern x spelling choices -> Doc                 *)
(*                                                                         *)
(* The round trip Parse(Unparse(p, sp)) = p is model-checked (MC_Syntax)   *)
(* on the universes of the properties, for every spelling the properties   *)
(* quantify over (C02: times inside the body / as sibling key).            *)
(***************************************************************************)
EXTENDS JasmMacro, JasmPattern, TLC

ErrNode(why) == Node("error", why, <<>>, 1, 1)
IsErr(p) == p.k = "error"
RECURSIVE HasErr(_)
HasErr(p) == IsErr(p) \/ \E n \in DOMAIN p.kids : HasErr(p.kids[n])

NameOf(d) == IF d.t = "int" THEN ToString(d.i) ELSE d.s

(***************************************************************************)
(* times                                                                   *)
(***************************************************************************)
\* <<lo, hi>> of a times value: an int n, or a map with min / max (each defaulting to 1)
TimesOf(t) ==
    IF t.t = "int" THEN <<t.i, t.i>>
    ELSE IF t.t = "map" THEN << IF HasKey(t, "min") THEN ValAt(t, "min").i ELSE 1,
                                IF HasKey(t, "max") THEN ValAt(t, "max").i ELSE 1 >>
    ELSE <<1, 1>>
\* the repetition bounds written on the map m whose first key is k
BoundsOf(m, k) ==
    IF HasKey(m, "times") THEN TimesOf(ValAt(m, "times"))
    ELSE IF ValAt(m, k).t = "map" /\ HasKey(ValAt(m, k), "times") THEN TimesOf(ValAt(ValAt(m, k), "times"))
    ELSE <<1, 1>>
BoundsOK(b) == 0 <= b[1] /\ b[1] <= b[2]

(***************************************************************************)
(* register-family capture names: &genreg-1.64                             *)
(***************************************************************************)
FamilyOf(s) ==   \* s without the leading &
    IF \E f \in Families : IsPrefixStr(f, s) THEN CHOOSE f \in Families : IsPrefixStr(f, s) ELSE ""
LowerSuffix(x) == CASE x = "8H" -> "8h" [] x = "8L" -> "8l" [] OTHER -> x
SuffixOf(s) ==   \* width suffix after the last '.', "" if none
    LET ps == SplitStr(s, ".") IN
    IF Len(ps) >= 2 /\ LowerSuffix(ps[Len(ps)]) \in Widths THEN LowerSuffix(ps[Len(ps)]) ELSE ""
BaseOf(s) == IF SuffixOf(s) = "" THEN s ELSE SubSeq(s, 1, Len(s) - Len(SplitStr(s, ".")[Len(SplitStr(s, "."))]) - 1)

(***************************************************************************)
(* Parse                                                                    *)
(***************************************************************************)
GroupKey == [and |-> "$and", or |-> "$or", not |-> "$not", perm |-> "$and_any_order"]
IsGroupKey(k) == k \in {"$and", "$or", "$not", "$and_any_order"}
GroupKind(k, level) ==
    CASE k = "$and" -> IF level = "i" THEN "and" ELSE "oand"
      [] k = "$or"  -> IF level = "i" THEN "or" ELSE "oor"
      [] k = "$not" -> IF level = "i" THEN "not" ELSE "onot"
      [] OTHER      -> IF level = "i" THEN "perm" ELSE "operm"

RECURSIVE ParseItem(_), ParseOp(_), ParseField(_), ParseGroup(_, _, _)

ParseField(d) ==
    IF d.t \in {"str", "int"} THEN
        LET s == NameOf(d) IN
        IF IsPrefixStr("&", s) THEN
            (IF FamilyOf(DropStr(s, 1)) # ""
             THEN RNode("frcap", BaseOf(DropStr(s, 1)), FamilyOf(DropStr(s, 1)), SuffixOf(s))
             ELSE Node("fcap", DropStr(s, 1), <<>>, 1, 1))
        ELSE Node("flit", s, <<>>, 1, 1)
    ELSE IF d.t = "list" /\ Len(d.items) = 1 /\ d.items[1].t = "map" /\ HasKey(d.items[1], "$or")
         /\ ValAt(d.items[1], "$or").t = "list" /\ ValAt(d.items[1], "$or").items # <<>>
    THEN Node("for", "", [n \in DOMAIN ValAt(d.items[1], "$or").items |-> ParseField(ValAt(d.items[1], "$or").items[n])], 1, 1)
    ELSE ErrNode("deref field")

ParseGroup(m, k, level) ==
    LET v == ValAt(m, k)
        b == BoundsOf(m, k)
    IN IF v.t # "list" \/ v.items = <<>> THEN ErrNode("empty group")
       ELSE IF k = "$not" /\ Len(v.items) # 1 THEN ErrNode("$not arity")
       ELSE IF ~BoundsOK(b) THEN ErrNode("times")
       ELSE Node(GroupKind(k, level), "",
                 [n \in DOMAIN v.items |-> IF level = "i" THEN ParseItem(v.items[n]) ELSE ParseOp(v.items[n])], b[1], b[2])

ParseOp(d) ==
    IF d.t \in {"str", "int"} THEN
        LET s == NameOf(d) IN
        IF IsPrefixStr("&", s) THEN
            (IF FamilyOf(DropStr(s, 1)) # ""
             THEN ORCap(BaseOf(DropStr(s, 1)), FamilyOf(DropStr(s, 1)), SuffixOf(s))
             ELSE OCap(DropStr(s, 1)))
        ELSE OLit(s)
    ELSE IF d.t = "map" /\ d.items # <<>> THEN
        LET k == d.items[1].s IN
        IF IsGroupKey(k) THEN ParseGroup(d, k, "o")
        ELSE IF k = "$deref" THEN
            LET v == ValAt(d, k)
                b == BoundsOf(d, k)
            IN IF v.t # "map" \/ ~HasKey(v, "main_reg") THEN ErrNode("deref without main_reg")
               ELSE [Node("deref", "", [n \in DOMAIN v.items |-> Node("dfield", v.items[n].s, <<ParseField(v.items[n].items[1])>>, 1, 1)], b[1], b[2])
                     EXCEPT !.kids = @]
        ELSE ErrNode("operand map")
    ELSE ErrNode("operand")

ParseItem(d) ==
    IF d.t \in {"str", "int"} THEN
        LET s == NameOf(d) IN
        IF IsPrefixStr("&", s) THEN PICap(DropStr(s, 1)) ELSE PIns(s, <<>>)
    ELSE IF d.t = "map" /\ d.items # <<>> THEN
        LET k == d.items[1].s
            v == ValAt(d, k)
            b == BoundsOf(d, k)
        IN IF IsGroupKey(k) THEN ParseGroup(d, k, "i")
           ELSE IF ~BoundsOK(b) THEN ErrNode("times")
           ELSE IF v.t = "list" THEN PInsT(k, [n \in DOMAIN v.items |-> ParseOp(v.items[n])], b[1], b[2])
           ELSE IF v.t = "map" THEN PInsT(k, <<>>, b[1], b[2])       \* {name: {times: T}}
           ELSE ErrNode("item value")
    ELSE ErrNode("item")

\* the whole `pattern' entry
Parse(d) ==
    IF d.t # "list" \/ d.items = <<>> THEN ErrNode("pattern")
    ELSE PAnd([n \in DOMAIN d.items |-> ParseItem(d.items[n])])

(***************************************************************************)
(* Unparse                                                                  *)
(***************************************************************************)
\* names that YAML reads as integers when written unquoted (spelling choice `ints')
IsDecimal(s) == s # "" /\ (\A i \in 1..Len(s) : DigitVal(Ch(s, i)) < 10) /\ (Len(s) = 1 \/ Ch(s, 1) # "0") /\ Len(s) <= 8
RECURSIVE DecValAcc(_, _)
DecValAcc(s, acc) == IF s = "" THEN acc ELSE DecValAcc(DropStr(s, 1), acc * 10 + DigitVal(Ch(s, 1)))
NameDoc(s, sp) == IF sp.ints /\ IsDecimal(s) THEN DInt(DecValAcc(s, 0)) ELSE DStr(s)

TimesDoc(p) == IF p.lo = p.hi THEN DInt(p.lo) ELSE DMap(<<DPair("min", DInt(p.lo)), DPair("max", DInt(p.hi))>>)
HasTimes(p) == ~(p.lo = 1 /\ p.hi = 1)
WithSibling(pairs, p) == DMap(pairs \o (IF HasTimes(p) THEN <<DPair("times", TimesDoc(p))>> ELSE <<>>))
CapText(q, upper) ==
    "&" \o q.name \o (IF q.w = "" THEN "" ELSE "." \o (IF upper /\ q.w = "8h" THEN "8H" ELSE IF upper /\ q.w = "8l" THEN "8L" ELSE q.w))
KeyOfKind(k) == CASE k \in {"and", "oand"} -> "$and" [] k \in {"or", "oor"} -> "$or"
                  [] k \in {"not", "onot"} -> "$not" [] OTHER -> "$and_any_order"

RECURSIVE UnparseItem(_, _), UnparseOp(_, _), UnparseField(_, _)
UnparseField(fp, sp) ==
    CASE fp.k = "flit" -> NameDoc(fp.name, sp)
      [] fp.k = "for"  -> DList(<<DMap1("$or", DList([n \in DOMAIN fp.kids |-> UnparseField(fp.kids[n], sp)]))>>)
      [] OTHER -> DStr(CapText(fp, sp.upper))
UnparseOp(q, sp) ==
    CASE q.k = "lit" -> NameDoc(q.name, sp)
      [] q.k \in {"ocap", "rcap"} -> DStr(CapText(q, sp.upper))
      [] q.k = "deref" ->
            WithSibling(<<DPair("$deref", DMap([n \in DOMAIN q.kids |-> DPair(q.kids[n].name, UnparseField(q.kids[n].kids[1], sp))]))>>, q)
      [] OTHER -> WithSibling(<<DPair(KeyOfKind(q.k), DList([n \in DOMAIN q.kids |-> UnparseOp(q.kids[n], sp)]))>>, q)
UnparseItem(p, sp) ==
    CASE p.k = "icap" -> DStr("&" \o p.name)
      [] p.k = "ins" ->
            IF p.kids = <<>> /\ ~HasTimes(p) THEN DStr(p.name)
            ELSE IF p.kids = <<>> /\ sp.times = "body" THEN DMap1(p.name, DMap1("times", TimesDoc(p)))
            ELSE WithSibling(<<DPair(p.name, DList([n \in DOMAIN p.kids |-> UnparseOp(p.kids[n], sp)]))>>, p)
      [] OTHER -> WithSibling(<<DPair(KeyOfKind(p.k), DList([n \in DOMAIN p.kids |-> UnparseItem(p.kids[n], sp)]))>>, p)
Unparse(P, sp) == DList([n \in DOMAIN P.kids |-> UnparseItem(P.kids[n], sp)])

(***************************************************************************)
(* A listing on which a pattern is meant to be found (used where two rules  *)
(* have to be compared behaviourally: it guarantees that the comparison     *)
(* includes an input on which the reference rule matches).  Best effort:    *)
(* first alternative, written order, the lower repetition bound (at least   *)
(* once), a foreign instruction / operand for $not.                          *)
(***************************************************************************)
RECURSIVE WitO(_), WitOSeq(_), WitI(_), WitISeq(_), RepSeq(_, _)
RepSeq(s, n) == IF n <= 0 THEN <<>> ELSE s \o RepSeq(s, n - 1)
WitField(fp, isReg, isScale) ==
    LET n == IF fp.k = "for" THEN fp.kids[1].name ELSE IF fp.k = "flit" THEN fp.name ELSE IF isReg THEN "%rdx" ELSE "0x20" IN
    IF isReg THEN (IF IsPrefixStr("%", n) THEN n ELSE "%" \o n)
    ELSE IF isScale \/ IsPrefixStr("0x", n) \/ IsPrefixStr("-", n) THEN n ELSE "0x" \o n
WitDeref(d) ==
    LET has(f) == FieldOf(d, f).k # "none" IN
    "[" \o WitField(FieldOf(d, "main_reg"), TRUE, FALSE)
        \o (IF has("register_multiplier") THEN "+" \o WitField(FieldOf(d, "register_multiplier"), TRUE, FALSE)
                  \o "*" \o (IF has("constant_multiplier") THEN WitField(FieldOf(d, "constant_multiplier"), FALSE, TRUE) ELSE "1") ELSE "")
        \o (IF has("constant_offset") THEN "+" \o WitField(FieldOf(d, "constant_offset"), FALSE, FALSE) ELSE "") \o "]"
WitO(q) ==
    LET once == CASE q.k = "lit" -> <<q.name>>
                  [] q.k \in {"oand", "operm"} -> WitOSeq(q.kids)
                  [] q.k = "oor" -> WitO(q.kids[1])
                  [] q.k = "onot" -> <<"zz">>
                  [] q.k = "ocap" -> <<"%c_" \o q.name>>
                  [] q.k = "rcap" -> <<"%" \o RegName(q.fam, CHOOSE r \in FamRegs(q.fam) : TRUE, IF q.w = "" THEN "64" ELSE q.w)>>
                  [] q.k = "deref" -> <<WitDeref(q)>>
                  [] OTHER -> <<>>
    IN RepSeq(once, IF q.lo = 0 /\ q.hi > 0 THEN 1 ELSE q.lo)
WitOSeq(qs) == IF qs = <<>> THEN <<>> ELSE WitO(Head(qs)) \o WitOSeq(Tail(qs))
WitI(p) ==
    LET once == CASE p.k = "ins" -> << <<p.name, WitOSeq(p.kids)>> >>
                  [] p.k \in {"and", "perm"} -> WitISeq(p.kids)
                  [] p.k = "or" -> WitI(p.kids[1])
                  [] p.k = "not" -> << <<"zzz", <<>> >> >>
                  [] p.k = "icap" -> << <<"cap" \o p.name, <<"%r9">> >> >>
                  [] OTHER -> <<>>
    IN RepSeq(once, IF p.lo = 0 /\ p.hi > 0 THEN 1 ELSE p.lo)
WitISeq(ps) == IF ps = <<>> THEN <<>> ELSE WitI(Head(ps)) \o WitISeq(Tail(ps))
\* addresses 1000, 1004, ...
Witness(P) == LET b == WitI(P) IN [n \in DOMAIN b |-> Ins("10" \o ToString(10 + n), b[n][1], b[n][2])]

Spellings == { [times |-> t, upper |-> u, ints |-> i] : t \in {"body", "sib"}, u \in BOOLEAN, i \in BOOLEAN }
RoundTrip(P) == \A sp \in Spellings : Parse(Unparse(P, sp)) = P
=============================================================================
