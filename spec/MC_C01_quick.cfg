SPECIFICATION Spec
CONSTANTS
  MaxItems = 2
  MaxListing = 2
  PMn <- Q_PMn
  POps <- Q_POps
  LMn <- Q_LMn
  LOps <- Q_LOps
INVARIANT C01_Literal
CHECK_DEADLOCK FALSE
