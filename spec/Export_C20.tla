----------------------------- MODULE Export_C20 -----------------------------
EXTENDS JasmCLI, Json, IOUtils, SequencesExt
CONSTANT Pairs
InvSeq == SetToSeq(Invocations(Pairs))
\* sets are exported as sequences
ASSUME JsonSerialize(IOEnv.JASM_OUT, [invocations |-> [n \in DOMAIN InvSeq |->
          [pat |-> InvSeq[n].pat, src |-> SetToSeq(InvSeq[n].src), all |-> InvSeq[n].all, addr |-> InvSeq[n].addr,
           macros |-> InvSeq[n].macros, pair |-> InvSeq[n].pair, dbg |-> InvSeq[n].dbg, usage |-> UsageError(InvSeq[n])]]])
VARIABLE x
Init == x = 0
Next == x' = x
=============================================================================
