------------------------------ MODULE MC_Compile ------------------------------
(***************************************************************************)
(* Refinement of the reference semantics by the compile scheme, on small   *)
(* universes (patterns of the property universes, listings of up to        *)
(* MaxL instructions): see JasmCompile.                                     *)
(***************************************************************************)
EXTENDS JasmCompile, JasmUniverse, JasmObjdump
CONSTANTS MaxL, Part
VARIABLES p, l, res
vars == <<p, l, res>>

U2 == INSTANCE U_C02 WITH MaxT <- 2, MaxGroupT <- 2, MaxBody <- 0
U3 == INSTANCE U_C03 WITH Depth2 <- "ab", MaxListing <- 0
U4 == INSTANCE U_C04 WITH MaxListing <- 0
U5 == INSTANCE U_C05 WITH MaxListing <- 2, RegWidths <- {"64", "16", "8l"}
U6 == INSTANCE U_C06 WITH PBase <- {"rax", "%r8"}, PIndex <- {<<>>, <<"rbx", "4">>}, PDisp <- {"", "0x8", "8"},
                          OBase <- {"%rax", "%r8"}, OIndex <- {<<"", "">>, <<"%rbx", "4">>, <<"%rbx", "8">>}, ODisp <- {"", "0x8", "0x80"}

I(m) == PIns(m, <<>>)
Bodies(ms) == { <<m, <<>> >> : m \in ms }
PatternsOf(part) ==
    CASE part = "times"  -> U2!Patterns
      [] part = "groups" -> { q \in U3!PatternsI : Len(q.kids) = 1 } \cup U3!PatternsO
      [] part = "not"    -> U4!PatternsI \cup U4!PatternsO
      [] part = "caps"   -> U5!PatternsI \cup U5!PatternsO \cup U5!PatternsD
      [] part = "regs"   -> U5!PatternsR
      [] OTHER           -> U6!Patterns \cup U3!PatternsD
ListingsOf(part) ==
    CASE part = "times"  -> ListingsOver(Bodies({"a", "b", "p", "q"}) \cup {<<"a", <<"x">> >>}, 0, MaxL)
      [] part = "groups" -> ListingsOver(Bodies({"a", "b", "c"}), 0, MaxL) \cup { ll \in U3!ListingsO : Len(ll) = 1 }
      [] part = "not"    -> ListingsOver(Bodies({"a", "b", "q"}) \cup {<<"a", <<"x">> >>}, 0, MaxL) \cup { ll \in U4!ListingsO : Len(ll) = 1 }
      [] part = "caps"   -> ListingsOver({<<"a", <<>> >>, <<"a", <<"x">> >>, <<"p", <<>> >>}, 0, 2)
                            \cup { ll \in U5!ListingsO : Len(ll) = 2 } \cup { ll \in U5!ListingsD : ll[1].ops[1] \in {"[%rax]", "[%rax+0x8]", "[%rax+%rbx*4]"} }
      [] part = "regs"   -> { ll \in U5!ListingsR : Len(ll) = 2 /\ ll[1].ops[1] \in {"%rax", "%ax", "%si", "%rsp", "0x5"} }
      [] OTHER           -> { Stream(<<x>>) : x \in U6!Lines } \cup U3!ListingsD

Off(L, i) == 1 + Len(EncodeRange(L, 1, i))      \* first character of instruction i (1-based)
Holds(P, L) ==
    LET cx == Cx(L, FALSE, FALSE)
        R  == Compile(P, cx)
        t  == Encode(L)
        n  == Len(L)
        starts == { Off(L, i) : i \in 1..(n + 1) }
    IN
    /\ \A i \in 1..(n + 1) :
          LET ends == { e[1] : e \in M(R, t, Off(L, i), EmptyEnv) } IN
          \* every end is an instruction boundary, and exactly the boundaries the reference semantics allows
          /\ ends \subseteq starts
          /\ { j \in 1..(n + 1) : Off(L, j) \in ends } = EndsAt(P, cx, i)
    \* the regex starts nowhere but at an instruction, or inside the address of an instruction at which it also starts
    /\ \A q \in 1..Len(t) : q \notin starts /\ M(R, t, q, EmptyEnv) # {} =>
          \E i \in 1..n : q > Off(L, i) /\ q < Off(L, i) + Len(L[i].addr) /\ M(R, t, Off(L, i), EmptyEnv) # {}

Init == p \in PatternsOf(Part) /\ l \in ListingsOf(Part) /\ res = "?"
Next == res = "?" /\ res' = (IF Holds(p, l) THEN "ok" ELSE "bad") /\ UNCHANGED <<p, l>>
Spec == Init /\ [][Next]_vars
CompileRefines == res # "bad"
=============================================================================
