SPECIFICATION Spec
INVARIANT SyntaxRoundTrip
CHECK_DEADLOCK FALSE
