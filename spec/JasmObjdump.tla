----------------------------- MODULE JasmObjdump -----------------------------
(***************************************************************************)
(* objdump -d -M att listings and the instruction stream they denote       *)
(* (C08, C09, C10, C16), in two directions.                                *)
(*                                                                         *)
(*  generative  abstract Line records  --LineText-->  listing text         *)
(*                                     --Stream---->  instruction list     *)
(*  recognising listing text --ParseLine--> what kind of line it is and,   *)
(*              for an instruction line, its address, mnemonic and operand *)
(*              texts (the grammar of what binutils prints)                *)
(*                                                                         *)
(* The presentation edits of C16 are actions on a listing; the action      *)
(* property `an edit leaves Stream unchanged' is model-checked (MC_C16).   *)
(***************************************************************************)
EXTENDS JasmText

(***************************************************************************)
(* AT&T operands and their normal form (C09)                               *)
(***************************************************************************)
Opd(t, v, a, b, c) == [t |-> t, v |-> v, a |-> a, b |-> b, c |-> c]
Imm(v)          == Opd("imm", v, "", "", "")      \* printed $v
Reg(r)          == Opd("reg", r, "", "", "")      \* r = "%rax"
Mem(k, a, b, c) == Opd("mem", k, a, b, c)         \* k(a,b,c); "" = absent; b and c together
Target(h)       == Opd("target", h, "", "", "")   \* direct branch / call target, bare hex
Raw(s)          == Opd("raw", s, "", "", "")      \* any other operand text, no normal form promised

AttText(o) ==
    CASE o.t = "imm" -> "$" \o o.v
      [] o.t = "mem" -> o.v \o "(" \o o.a \o (IF o.b # "" THEN "," \o o.b \o "," \o o.c ELSE "") \o ")"
      [] OTHER -> o.v
\* C09: $v -> v, %r -> %r, k(a,b,c) -> [a+b*c+k] with absent parts omitted, target -> bare hex
NormText(o) ==
    CASE o.t = "imm" -> o.v
      [] o.t = "mem" -> "[" \o o.a \o (IF o.b # "" THEN "+" \o o.b \o "*" \o o.c ELSE "")
                            \o (IF o.v # "" THEN "+" \o o.v ELSE "") \o "]"
      [] OTHER -> o.v

(***************************************************************************)
(* Lines                                                                   *)
(***************************************************************************)
\* one uniform record for every kind of line
Line(kind, addr, bytes, indent, mn, ops, sym, comment, tail, text) ==
    [kind |-> kind, addr |-> addr, bytes |-> bytes, indent |-> indent, mn |-> mn, ops |-> ops,
     sym |-> sym, comment |-> comment, tail |-> tail, text |-> text]
InsnLine(addr, bytes, mn, ops) == Line("insn", addr, bytes, 2, mn, ops, "", "", 0, "")
ContLine(addr, bytes)  == Line("cont", addr, bytes, 2, "", <<>>, "", "", 0, "")
HeaderLine(text)  == Line("header", "", <<>>, 0, "", <<>>, "", "", 0, text)   \* "a.out:     file format elf64-x86-64"
BlankLine         == Line("blank", "", <<>>, 0, "", <<>>, "", "", 0, "")
SectionLine(name) == Line("section", "", <<>>, 0, "", <<>>, "", "", 0, name)  \* Disassembly of section <name>:
LabelLine(addr, name) == Line("label", addr, <<>>, 0, "", <<>>, "", "", 0, name) \* 0000000000401000 <name>:
EllipsisLine      == Line("ellipsis", "", <<>>, 0, "", <<>>, "", "", 0, "")   \* <TAB>...

IsInsn(l) == l.kind = "insn"

RECURSIVE Spaces(_)
Spaces(n) == IF n <= 0 THEN "" ELSE " " \o Spaces(n - 1)
PadRight(s, w) == s \o Spaces(w - Len(s))

\* bytes as objdump prints them: each followed by a blank, padded to 7 bytes wide
BytesText(bs) == PadRight(ConcatStr([n \in DOMAIN bs |-> bs[n] \o " "]), 21)

InsnText(l) ==
    (IF l.ops = <<>> THEN l.mn \o Spaces(l.tail)
     ELSE PadRight(l.mn, 6) \o " " \o JoinStr([k \in DOMAIN l.ops |-> AttText(l.ops[k])], ","))
    \o (IF l.sym # "" THEN " <" \o l.sym \o ">" ELSE "")
    \o (IF l.comment # "" THEN "        # " \o l.comment ELSE "")

LineText(l) ==
    CASE l.kind = "insn"     -> Spaces(l.indent) \o l.addr \o ":\t" \o BytesText(l.bytes) \o "\t" \o InsnText(l)
      [] l.kind = "cont"     -> Spaces(l.indent) \o l.addr \o ":\t" \o ConcatStr([n \in DOMAIN l.bytes |-> l.bytes[n] \o " "])
      [] l.kind = "header"   -> l.text
      [] l.kind = "blank"    -> ""
      [] l.kind = "section"  -> "Disassembly of section " \o l.text \o ":"
      [] l.kind = "label"    -> l.addr \o " <" \o l.text \o ">:"
      [] l.kind = "ellipsis" -> "\t..."
      [] OTHER -> ""
ListingLines(ls) == [n \in DOMAIN ls |-> LineText(ls[n])]

(***************************************************************************)
(* The stream a listing denotes (C08): exactly one instruction per         *)
(* instruction line, in order, with that line's address and mnemonic and   *)
(* the normal forms of its operands; nothing from any other kind of line.  *)
(* Named normalisation: objdump's "(bad)" pseudo-mnemonic is carried       *)
(* without the parentheses (BadParen).                                      *)
(***************************************************************************)
StreamMn(m) == IF m = "(bad)" THEN "bad" ELSE m
\* what an observed stream may carry for a line's mnemonic: the mnemonic itself; for
\* objdump's "(bad)" the code carries "bad" on operand-less lines and "(bad)" otherwise,
\* both are accepted (the property does not choose)
MnAgrees(lineMn, streamMn) == streamMn = lineMn \/ (lineMn = "(bad)" /\ streamMn = "bad")
StreamIns(l) == Ins(l.addr, StreamMn(l.mn), [k \in DOMAIN l.ops |-> NormText(l.ops[k])])
Stream(ls) == LET is == SelectSeq(ls, IsInsn) IN [n \in DOMAIN is |-> StreamIns(is[n])]

(***************************************************************************)
(* Recognising listing text                                                *)
(***************************************************************************)
IsHexByteSeq(s) ==   \* "48 89 e5 " possibly padded with blanks
    LET ps == SelectSeq(SplitStr(s, " "), LAMBDA x : x # "") IN
    ps # <<>> /\ \A n \in DOMAIN ps : Len(ps[n]) = 2 /\ IsHexStr(ps[n])
RECURSIVE LStrip(_)
LStrip(s) == IF s # "" /\ Ch(s, 1) \in {" ", "\t"} THEN LStrip(DropStr(s, 1)) ELSE s
IsAddrField(s) ==    \* "  401000:"
    LET t == LStrip(s) IN Len(t) >= 2 /\ Ch(t, Len(t)) = ":" /\ IsHexStr(SubSeq(t, 1, Len(t) - 1))
AddrOf(s) == LET t == LStrip(s) IN SubSeq(t, 1, Len(t) - 1)

\* first blank-delimited token of s and the rest
TokEnd(s) == LET p == FindFrom(" ", s, 1) IN IF p = 0 THEN Len(s) + 1 ELSE p
Tok1(s) == SubSeq(s, 1, TokEnd(s) - 1)
Rest1(s) == LStrip(DropStr(s, TokEnd(s) - 1))

\* commas split operands unless inside parentheses
RECURSIVE SplitOps(_, _, _)
SplitOps(s, depth, acc) ==
    IF s = "" THEN <<acc>>
    ELSE LET c == Ch(s, 1) IN
         IF c = "," /\ depth = 0 THEN <<acc>> \o SplitOps(DropStr(s, 1), 0, "")
         ELSE SplitOps(DropStr(s, 1),
                       IF c = "(" THEN depth + 1 ELSE IF c = ")" /\ depth > 0 THEN depth - 1 ELSE depth,
                       acc \o c)

\* text of an instruction field: [pfx] mnemonic [operands] [<sym>] [# comment]
\* the `data16' prefix is not part of the instruction JASM matches (Data16Dropped);
\* any other prefix word is, being the first token, the mnemonic (PrefixAsMnemonic)
RECURSIVE DropData16(_)
DropData16(t) == IF IsPrefixStr("data16 ", t) THEN DropData16(DropStr(t, 7)) ELSE t
ParseInsnField(t0) ==
    LET t   == DropData16(t0)
        mn  == Tok1(t)
        r   == Rest1(t)
        hsh == FindFrom("#", r, 1)
        r2  == IF hsh = 0 THEN r ELSE SubSeq(r, 1, hsh - 1)
        opt == Tok1(r2)
    IN [mn |-> mn, ops |-> IF opt = "" THEN <<>> ELSE SplitOps(opt, 0, "")]

ParseLine(s) ==
    LET f == SplitStr(s, "\t") IN
    IF Len(f) = 3 /\ IsAddrField(f[1]) /\ IsHexByteSeq(f[2]) /\ LStrip(f[3]) # ""
    THEN LET p == ParseInsnField(f[3]) IN
         [kind |-> "insn", addr |-> AddrOf(f[1]), mn |-> p.mn, ops |-> p.ops]
    ELSE IF Len(f) = 2 /\ IsAddrField(f[1]) /\ IsHexByteSeq(f[2])
    THEN [kind |-> "cont", addr |-> AddrOf(f[1]), mn |-> "", ops |-> <<>>]
    \* objdump --no-show-raw-insn: the raw-byte column is absent
    ELSE IF Len(f) = 2 /\ IsAddrField(f[1]) /\ LStrip(f[2]) # ""
    THEN LET p == ParseInsnField(f[2]) IN
         [kind |-> "insn", addr |-> AddrOf(f[1]), mn |-> p.mn, ops |-> p.ops]
    ELSE [kind |-> "other", addr |-> "", mn |-> "", ops |-> <<>>]

(***************************************************************************)
(* Normal form of an operand text (C09).  Only the AT&T forms the property *)
(* lists have a promised normal form; for any other text `ok' is FALSE and *)
(* nothing is required of it (beyond C10's separator discipline).           *)
(***************************************************************************)
IsRegText(s) == Len(s) >= 2 /\ Ch(s, 1) = "%" /\
                \A i \in 2..Len(s) : Ch(s, i) \notin {"(", ")", ":", ",", "*", " "}
IsDispText(s) ==    \* 0x10, -0x8, 16, -4
    LET u == IF IsPrefixStr("-", s) THEN DropStr(s, 1) ELSE s IN
    u # "" /\ (IF IsPrefixStr("0x", u) THEN IsHexStr(DropStr(u, 2)) ELSE \A i \in 1..Len(u) : DigitVal(Ch(u, i)) < 10)
NormOfText(s) ==
    LET no  == [ok |-> FALSE, v |-> ""]
        yes(v) == [ok |-> TRUE, v |-> v]
        lp  == FindFrom("(", s, 1)
    IN
    IF s = "" THEN no
    ELSE IF Ch(s, 1) = "$" THEN (IF lp = 0 THEN yes(DropStr(s, 1)) ELSE no)
    ELSE IF IsRegText(s) THEN yes(s)
    ELSE IF IsHexStr(s) THEN yes(s)
    ELSE IF lp > 0 /\ Ch(s, Len(s)) = ")" THEN
         LET k  == SubSeq(s, 1, lp - 1)
             ps == SplitStr(SubSeq(s, lp + 1, Len(s) - 1), ",")
         IN IF ~(k = "" \/ IsDispText(k)) THEN no
            ELSE IF Len(ps) = 1 /\ IsRegText(ps[1])
                 THEN yes("[" \o ps[1] \o (IF k # "" THEN "+" \o k ELSE "") \o "]")
            ELSE IF Len(ps) = 3 /\ (ps[1] = "" \/ IsRegText(ps[1])) /\ IsRegText(ps[2]) /\ ps[3] \in {"1", "2", "4", "8"}
                    /\ (ps[1] # "" \/ k # "")
                 THEN yes("[" \o ps[1] \o "+" \o ps[2] \o "*" \o ps[3] \o (IF k # "" THEN "+" \o k ELSE "") \o "]")
            ELSE no
    ELSE no

\* expected stream of listing text; operands outside C09's forms are left to the observation
TextInsns(lines) ==
    LET ps == [n \in DOMAIN lines |-> ParseLine(lines[n])]
    IN SelectSeq(ps, LAMBDA p : p.kind = "insn")

(***************************************************************************)
(* Presentation edits (C16) as actions on a listing                        *)
(***************************************************************************)
LInsertAt(ls, n, l) == SubSeq(ls, 1, n - 1) \o <<l>> \o SubSeq(ls, n, Len(ls))
LRemoveAt(ls, n) == SubSeq(ls, 1, n - 1) \o SubSeq(ls, n + 1, Len(ls))
=============================================================================
