---------------------------- MODULE JasmUniverse ----------------------------
(***************************************************************************)
(* Helpers for the finite universes the checks quantify over.  Universes   *)
(* are defined in TLA+ (U_*.tla) and exported as JSON by TLC; the harness   *)
(* never invents cases in the spec -> code direction.                       *)
(***************************************************************************)
EXTENDS JasmPattern, SequencesExt, FiniteSetsExt

SeqsBetween(S, lo, hi) == UNION { [1..n -> S] : n \in lo..hi }

\* addresses by position: different lengths, and hex words that are also
\* mnemonic or operand fragments ("ab", "add", "dec") -- C07
AddrTable == <<"ab", "1a2", "add", "dec0de1", "4", "b00", "fee1", "c0ffee0", "5f"
              , "1000", "1004", "100a">>
WithAddrs(body) == [n \in DOMAIN body |-> Ins(AddrTable[n], body[n][1], body[n][2])]

\* listings: all sequences of instruction bodies <<mn, ops>>
ListingsOver(bodies, lo, hi) == { WithAddrs(s) : s \in SeqsBetween(bodies, lo, hi) }

LitOps(names) == [k \in DOMAIN names |-> OLit(names[k])]
=============================================================================
