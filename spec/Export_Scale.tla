----------------------------- MODULE Export_Scale -----------------------------
EXTENDS U_Scale, Json, IOUtils
ASSUME JsonSerialize(IOEnv.JASM_OUT, Universe)
VARIABLE x
Init == x = 0
Next == x' = x
=============================================================================
