SPECIFICATION Spec
CONSTANTS
  Scheme = "fixed"
  MaxL = 2
  Part = "deref"
INVARIANT CompileRefines
CHECK_DEADLOCK FALSE
