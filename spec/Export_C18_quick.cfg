INIT Init
NEXT Next
CONSTANTS
  Ranges <- Q_Ranges
  Targets <- Q_Targets
