------------------------------- MODULE MC_C03 -------------------------------
(***************************************************************************)
(* Design-level check of C03: the algebraic laws the statement spells out,  *)
(* for every pair/triple of groups of the universe and every listing.       *)
(*   a, $or[X,Y], d    ==  a X d  or  a Y d          (never merged)          *)
(*   $and_any_order[X,Y] == $or[$and[X,Y], $and[Y,X]] (each child once)      *)
(*   $and[$and[X,Y],Z]  == $and[X,Y,Z]                                       *)
(* and the same laws at operand level.                                      *)
(***************************************************************************)
EXTENDS U_C03
VARIABLES g, l, res
vars == <<g, l, res>>

Sp(P, L) == Spans(P, Cx(L, FALSE, FALSE))
Cands == IF Depth2 = "full" THEN Leaves \cup D1 ELSE Leaves \cup Bin(I("a"), I("b"))
HoldsI(xy, L) ==
    LET A == xy[1]  B == xy[2] IN
    /\ Sp(PAnd(<<I("p"), POr(<<A, B>>), I("q")>>), L)
         = Sp(PAnd(<<I("p"), A, I("q")>>), L) \cup Sp(PAnd(<<I("p"), B, I("q")>>), L)
    /\ Sp(PAnd(<<PPerm(<<A, B>>)>>), L) = Sp(PAnd(<<POr(<<PAnd(<<A, B>>), PAnd(<<B, A>>)>>)>>), L)
    /\ Sp(PAnd(<<PAnd(<<A, B>>), I("c")>>), L) = Sp(PAnd(<<A, B, I("c")>>), L)
    /\ Sp(PAnd(<<POr(<<A, B>>)>>), L) = Sp(PAnd(<<POr(<<B, A>>)>>), L)

OCands == {X, Y, Z} \cup OBin(X, Y)
M(ops) == PAnd(<<PIns("m", ops)>>)
HoldsO(xy, L) ==
    LET A == xy[1]  B == xy[2] IN
    /\ Sp(M(<<X, OOr(<<A, B>>), Z>>), L) = Sp(M(<<X, A, Z>>), L) \cup Sp(M(<<X, B, Z>>), L)
    /\ Sp(M(<<OPerm(<<A, B>>)>>), L) = Sp(M(<<OOr(<<OAnd(<<A, B>>), OAnd(<<B, A>>)>>)>>), L)
    /\ Sp(M(<<OAnd(<<A, B>>), Z>>), L) = Sp(M(<<A, B, Z>>), L)

Init == \/ g \in {<<"i", a, b>> : <<a, b>> \in Cands \X Cands} /\ l \in ListingsI /\ res = "?"
        \/ g \in {<<"o", a, b>> : <<a, b>> \in OCands \X OCands} /\ l \in ListingsO /\ res = "?"
Next == /\ res = "?"
        /\ res' = (IF (IF g[1] = "i" THEN HoldsI(<<g[2], g[3]>>, l) ELSE HoldsO(<<g[2], g[3]>>, l)) THEN "ok" ELSE "bad")
        /\ UNCHANGED <<g, l>>
Spec == Init /\ [][Next]_vars
C03_Laws == res # "bad"
=============================================================================
