------------------------------- MODULE Export -------------------------------
(* Generic exporter: the universe module is chosen by the config file via   *)
(* INSTANCE substitution is not possible in TLA+, so one Export_<U> module  *)
(* exists per universe; this module holds the shared trivial behaviour.     *)
EXTENDS Naturals
VARIABLE x
Init == x = 0
Next == x' = x
Spec == Init /\ [][Next]_x
=============================================================================
