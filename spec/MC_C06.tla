------------------------------- MODULE MC_C06 -------------------------------
(***************************************************************************)
(* Design-level check of C06 (C06_Agree): for every $deref pattern D and   *)
(* every AT&T operand o of the universe, the compiled-side semantics       *)
(* (MDeref on the normal-form text that the normaliser produces for o)     *)
(* holds iff D and o have the same present components, component by        *)
(* component, registers optionally written without % and constants         *)
(* optionally without 0x on the pattern side.                              *)
(***************************************************************************)
EXTENDS U_C06
VARIABLES d, o, res
vars == <<d, o, res>>

FieldText(dd, fname) == IF FieldOf(dd, fname).k = "none" THEN "" ELSE FieldOf(dd, fname).name
CompAgrees(pat, comp, isReg) ==
    IF pat = "" THEN comp = ""
    ELSE comp # "" /\ (comp = pat \/ comp = (IF isReg THEN "%" ELSE "0x") \o pat)
SameComponents(dd, op) ==
    /\ op.t = "mem"
    /\ CompAgrees(FieldText(dd, "main_reg"), op.a, TRUE)
    /\ CompAgrees(FieldText(dd, "register_multiplier"), op.b, TRUE)
    /\ CompAgrees(FieldText(dd, "constant_multiplier"), op.c, FALSE)
    /\ CompAgrees(FieldText(dd, "constant_offset"), op.v, FALSE)
DerefMatches(dd, txt) == MO(dd, <<txt>>, 1, {}, Cx(<<>>, FALSE, FALSE)) # {}

Init == d \in Derefs /\ o \in MemOps \cup OtherOps /\ res = "?"
Next == res = "?" /\ res' = (IF DerefMatches(d, NormText(o)) <=> SameComponents(d, o) THEN "ok" ELSE "bad") /\ UNCHANGED <<d, o>>
Spec == Init /\ [][Next]_vars
C06_Agree == res # "bad"
=============================================================================
