SPECIFICATION Spec
CONSTANTS
  PBase <- T_PBase
  PIndex <- T_PIndex
  PDisp <- T_PDisp
  OBase <- T_OBase
  OIndex <- T_OIndex
  ODisp <- T_ODisp
INVARIANT C06_Agree
CHECK_DEADLOCK FALSE
