------------------------------- MODULE MC_C04 -------------------------------
(***************************************************************************)
(* Design-level check of C04 on the universe of U_C04.                     *)
(*   every span of $not X covers exactly one instruction;                  *)
(*   [$not X, Y] starts at i iff X does not match starting at i and Y      *)
(*   matches starting at i+1 -- however many instructions X would span;    *)
(*   in an operand list $not x consumes exactly one operand.               *)
(***************************************************************************)
EXTENDS U_C04
VARIABLES a, l, res
vars == <<a, l, res>>

HoldsI(x, L) ==
    LET cx == Cx(L, FALSE, FALSE) IN
    \A i \in 1..(Len(L) + 1) :
        /\ \A e \in MI(PNot(x), cx, i, {}) : e[1] = i + 1
        /\ (MI(PNot(x), cx, i, {}) # {}) <=> (i <= Len(L) /\ MI(x, cx, i, {}) = {})
        /\ \A y \in {I("q"), I("a"), PAnd(<<I("b"), I("q")>>)} :
              MI(PAnd(<<PNot(x), y>>), cx, i, {}) # {}
                 <=> (i <= Len(L) /\ MI(x, cx, i, {}) = {} /\ MI(y, cx, i + 1, {}) # {})
HoldsO(x, L) ==
    LET cx == Cx(L, FALSE, FALSE) IN
    \A n \in DOMAIN L : \A k \in 1..(Len(L[n].ops) + 1) :
        LET ops == L[n].ops IN
        /\ \A e \in MO(ONot(x), ops, k, {}, cx) : e[1] = k + 1
        /\ (MO(ONot(x), ops, k, {}, cx) # {}) <=> (k <= Len(ops) /\ MO(x, ops, k, {}, cx) = {})
        /\ (MOS(<<ONot(x), Y>>, ops, k, {}, cx) # {})
              <=> (k <= Len(ops) /\ MO(x, ops, k, {}, cx) = {} /\ MO(Y, ops, k + 1, {}, cx) # {})

Init == \/ a \in {<<"i", x>> : x \in Args} /\ l \in ListingsI /\ res = "?"
        \/ a \in {<<"o", x>> : x \in OArgs} /\ l \in ListingsO /\ res = "?"
Next == /\ res = "?"
        /\ res' = (IF (IF a[1] = "i" THEN HoldsI(a[2], l) ELSE HoldsO(a[2], l)) THEN "ok" ELSE "bad")
        /\ UNCHANGED <<a, l>>
Spec == Init /\ [][Next]_vars
C04_One == res # "bad"
=============================================================================
