----------------------------- MODULE Export_C06 -----------------------------
EXTENDS U_C06, Json, IOUtils
ASSUME JsonSerialize(IOEnv.JASM_OUT, [m |-> Universe, s |-> UniverseS])
VARIABLE x
Init == x = 0
Next == x' = x
=============================================================================
