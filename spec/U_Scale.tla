------------------------------- MODULE U_Scale -------------------------------
(***************************************************************************)
(* Long listings (thousands of instructions) whose only occurrences of a   *)
(* pattern sit ACROSS the powers of two 256, 512, ..., 8192 of the         *)
(* instruction count: an occurrence that starts with the B-th instruction, *)
(* one that ends with it, and a variable-length occurrence (times 1..4)    *)
(* that begins just before it.  Nothing in the properties depends on where *)
(* in a listing an occurrence lies, or on how long the listing is.          *)
(***************************************************************************)
EXTENDS JasmUniverse
CONSTANT MaxPow          \* boundaries 2^8 .. 2^MaxPow

RECURSIVE Pow2(_)
Pow2(n) == IF n = 0 THEN 1 ELSE 2 * Pow2(n - 1)
Bounds == { Pow2(k) : k \in 8..MaxPow }
Len_ == Pow2(MaxPow) + 24

HexOf(n) == LET RECURSIVE H(_)
                H(m) == IF m < 16 THEN HexDigits[m + 1] ELSE H(m \div 16) \o HexDigits[(m % 16) + 1]
            IN H(n)
Addr(n) == HexOf(4198400 + 3 * n)          \* 0x401000 + 3n

I(m) == PIns(m, <<>>)
\* one listing per boundary B (its only occurrence is the one across B), and one holding them all
\* listing A: push is the B-th instruction, mov the (B+1)-th
BodyA(n, bs) == IF n \in bs THEN <<"push", <<"%rbp">> >>
                ELSE IF \E b \in bs : n = b + 1 THEN <<"mov", <<"%rsp", "%rbp">> >>
                ELSE <<"xor", <<"%eax", "%eax">> >>
\* listing B: ret is the (B-1)-th instruction, followed by three nop (B, B+1, B+2)
BodyB(n, bs) == IF \E b \in bs : n = b - 1 THEN <<"ret", <<>> >>
                ELSE IF \E b \in bs : n \in {b, b + 1, b + 2} THEN <<"nop", <<>> >>
                ELSE <<"xor", <<"%eax", "%eax">> >>
MkA(len, bs) == [n \in 1..len |-> Ins(Addr(n), BodyA(n, bs)[1], BodyA(n, bs)[2])]
MkB(len, bs) == [n \in 1..len |-> Ins(Addr(n), BodyB(n, bs)[1], BodyB(n, bs)[2])]
BoundSeq == SetToSeq(Bounds)
ListingsB == <<MkB(Len_, Bounds)>> \o [k \in DOMAIN BoundSeq |-> MkB(BoundSeq[k] + 24, {BoundSeq[k]})]
\* a run of R identical operand-less instructions between a push and a ret (padding, a NOP sled): every one of
\* them is an instruction of the listing, so a pattern that spells out R - 1 or R + 1 of them does not occur
RunLen == 40
RunBody(n) == IF n = 1 THEN <<"push", <<"%rbp">> >> ELSE IF n = RunLen + 2 THEN <<"ret", <<>> >> ELSE <<"nop", <<>> >>
RunListing == [n \in 1..(RunLen + 2) |-> Ins(Addr(n), RunBody(n)[1], RunBody(n)[2])]
Nops(k) == [n \in 1..k |-> I("nop")]
RunPatterns == << PAnd(<<I("push")>> \o Nops(RunLen - 1) \o <<I("ret")>>), PAnd(<<I("push")>> \o Nops(RunLen) \o <<I("ret")>>),
                  PAnd(<<I("push")>> \o Nops(RunLen + 1) \o <<I("ret")>>), PAnd(Nops(RunLen) \o <<I("ret")>>) >>
ListingsA == <<RunListing, MkA(Len_, Bounds)>> \o [k \in DOMAIN BoundSeq |-> MkA(BoundSeq[k] + 24, {BoundSeq[k]})]
PatternsA == RunPatterns \o << PAnd(<<I("push"), I("mov")>>), PAnd(<<PIns("push", <<OLit("rbp")>>), PIns("mov", <<OLit("rsp")>>)>>) >>
PatternsB == << PAnd(<<I("ret"), PInsT("nop", <<>>, 1, 4)>>), PAnd(<<I("ret"), I("nop"), PInsT("nop", <<>>, 0, 3)>>) >>
Universe == [a |-> [patterns |-> PatternsA, listings |-> ListingsA],
             b |-> [patterns |-> PatternsB, listings |-> ListingsB]]
=============================================================================
