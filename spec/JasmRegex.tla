------------------------------ MODULE JasmRegex ------------------------------
(***************************************************************************)
(* A small regular-expression calculus -- the fragment of the `regex'      *)
(* module that JASM's compiler emits -- with a set-valued matching         *)
(* semantics over strings.  Used by JasmCompile, the design-level model of *)
(* the pattern -> regex compile scheme.  Engine priority (greedy / lazy,   *)
(* alternation order) is not modelled: M yields ALL ways a regex can match *)
(* from a position.                                                        *)
(*                                                                         *)
(* Nodes (one uniform record): k kind, s matched text / class members,     *)
(* p printed form, neg, kids, lo, hi, idx.                                  *)
(***************************************************************************)
EXTENDS JasmText

RNode_(k, s, p, neg, kids, lo, hi, idx) ==
    [k |-> k, s |-> s, p |-> p, neg |-> neg, kids |-> kids, lo |-> lo, hi |-> hi, idx |-> idx]
RLit(s, p)         == RNode_("lit", s, p, FALSE, <<>>, 1, 1, 0)          \* literal text s, printed p
RClass(s, neg, p)  == RNode_("class", s, p, neg, <<>>, 1, 1, 0)          \* one char (not) in s
RCat(ks)           == RNode_("cat", "", "", FALSE, ks, 1, 1, 0)
RAlt(ks)           == RNode_("alt", "", "", FALSE, ks, 1, 1, 0)          \* k1|k2|...
RNcg(r)            == RNode_("ncg", "", "", FALSE, <<r>>, 1, 1, 0)       \* (?:r)
RRep(r, lo, hi, p) == RNode_("rep", "", p, FALSE, <<r>>, lo, hi, 0)      \* r{lo,hi}; p = printed quantifier
RNLook(r)          == RNode_("nlook", "", "", FALSE, <<r>>, 1, 1, 0)     \* (?!r)
RPLook(r)          == RNode_("plook", "", "", FALSE, <<r>>, 1, 1, 0)     \* (?=r)
RGrp(idx, r)       == RNode_("grp", "", "", FALSE, <<r>>, 1, 1, idx)     \* (r), capture group idx
RRef(idx)          == RNode_("ref", "", "", FALSE, <<>>, 1, 1, idx)      \* \idx
REmpty             == RCat(<<>>)

\* printed form (what the compiler's output text looks like)
RECURSIVE RText(_)
RText(r) ==
    LET RECURSIVE CatText(_)
        CatText(ks) == IF ks = <<>> THEN "" ELSE RText(Head(ks)) \o CatText(Tail(ks))
        RECURSIVE AltText(_)
        AltText(ks) == IF Len(ks) = 1 THEN RText(ks[1]) ELSE RText(Head(ks)) \o "|" \o AltText(Tail(ks))
    IN CASE r.k \in {"lit", "class"} -> r.p
         [] r.k = "cat"   -> CatText(r.kids)
         [] r.k = "alt"   -> AltText(r.kids)
         [] r.k = "ncg"   -> "(?:" \o RText(r.kids[1]) \o ")"
         [] r.k = "rep"   -> RText(r.kids[1]) \o r.p
         [] r.k = "nlook" -> "(?!" \o RText(r.kids[1]) \o ")"
         [] r.k = "plook" -> "(?=" \o RText(r.kids[1]) \o ")"
         [] r.k = "grp"   -> "(" \o RText(r.kids[1]) \o ")"
         [] r.k = "ref"   -> "\\" \o ToString(r.idx)
         [] OTHER -> "?"

(***************************************************************************)
(* Matching: M(r, t, i, env) \subseteq <<j, env'>>: r matches t[i..j-1].   *)
(* env: function from group index to the text the group last captured.     *)
(***************************************************************************)
EmptyEnv == [x \in {} |-> ""]
BindG(env, idx, txt) == [x \in (DOMAIN env) \cup {idx} |-> IF x = idx THEN txt ELSE env[x]]

RECURSIVE M(_, _, _, _), MSeq(_, _, _, _), MRepN(_, _, _, _, _, _, _)
M(r, t, i, env) ==
    CASE r.k = "lit" ->
            IF i + Len(r.s) - 1 <= Len(t) /\ SubSeq(t, i, i + Len(r.s) - 1) = r.s THEN {<<i + Len(r.s), env>>} ELSE {}
      [] r.k = "class" ->
            IF i <= Len(t) /\ (HasChar(r.s, Ch(t, i)) # r.neg) THEN {<<i + 1, env>>} ELSE {}
      [] r.k = "cat"   -> MSeq(r.kids, t, i, env)
      [] r.k = "alt"   -> UNION { M(r.kids[n], t, i, env) : n \in DOMAIN r.kids }
      [] r.k = "ncg"   -> M(r.kids[1], t, i, env)
      [] r.k = "rep"   -> MRepN(r.kids[1], t, i, env, 0, r.lo, r.hi)
      [] r.k = "nlook" -> IF M(r.kids[1], t, i, env) = {} THEN {<<i, env>>} ELSE {}
      [] r.k = "plook" -> IF M(r.kids[1], t, i, env) # {} THEN {<<i, env>>} ELSE {}
      [] r.k = "grp"   -> { <<e[1], BindG(e[2], r.idx, SubSeq(t, i, e[1] - 1))>> : e \in M(r.kids[1], t, i, env) }
      [] r.k = "ref"   ->
            IF r.idx \notin DOMAIN env THEN {}
            ELSE LET w == env[r.idx] IN
                 IF i + Len(w) - 1 <= Len(t) /\ SubSeq(t, i, i + Len(w) - 1) = w THEN {<<i + Len(w), env>>} ELSE {}
      [] OTHER -> {}
MSeq(ks, t, i, env) ==
    IF ks = <<>> THEN {<<i, env>>}
    ELSE UNION { MSeq(Tail(ks), t, e[1], e[2]) : e \in M(Head(ks), t, i, env) }
\* n repetitions done so far; an iteration must make progress (as the engine's loop guard does)
MRepN(r, t, i, env, n, lo, hi) ==
    (IF n >= lo THEN {<<i, env>>} ELSE {})
    \cup (IF n < hi
          THEN UNION { MRepN(r, t, e[1], e[2], n + 1, lo, hi) : e \in { e \in M(r, t, i, env) : e[1] > i \/ n < lo } }
          ELSE {})

\* a decimal numeral for small naturals (group indices, repetition counts)
\* (defined here because RText needs it; ToString of TLC prints the same)
=============================================================================
