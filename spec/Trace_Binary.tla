---------------------------- MODULE Trace_Binary ----------------------------
(***************************************************************************)
(* Trace validation of the binary route (C15).  One case = one object file *)
(* and one `sections' list: route A is JASM in binary mode (the command    *)
(* line it handed to objdump is recorded by a PATH shim), route B is the   *)
(* harness running the command line the SPECIFICATION prescribes           *)
(* (Argv) and JASM in assembly mode on that text.                          *)
(***************************************************************************)
EXTENDS JasmBinary, Json, IOUtils, TLC
Cases == JsonDeserialize(IOEnv.JASM_CASES).cases
VARIABLES idx, verdict
Check(c) ==
    LET want == Argv("att", c.sections, c.file) IN
    IF c.b_objdump_ok /\ c.a_outcome # "ok" THEN "rej:C15_BinaryRouteFailed"
    ELSE IF ~c.b_objdump_ok /\ c.a_outcome = "ok" THEN "rej:C15_FailureNotPropagated"
    ELSE IF c.a_argv # <<>> /\ c.a_argv # want THEN "rej:C15_Argv"
    ELSE IF ~c.b_objdump_ok THEN "ok:bothfail"
    ELSE IF c.b_outcome # "ok" THEN "rej:MACHINERY_TextRouteFailed"
    ELSE IF c.a_stream # c.b_stream THEN "rej:C15_Stream"
    ELSE IF c.a_res # c.b_res THEN "rej:C15_Results"
    ELSE "ok"
Init == idx \in DOMAIN Cases /\ verdict = "?"
Next == verdict = "?" /\ verdict' = Check(Cases[idx]) /\ UNCHANGED idx
Spec == Init /\ [][Next]_<<idx, verdict>>
=============================================================================
