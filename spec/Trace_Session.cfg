SPECIFICATION TraceSpec
CONSTANTS
  Rules <- RuleIds
  Cfg <- CfgTable
  Atomic = TRUE
  MaxOps = 100
INVARIANT TraceInv
CHECK_DEADLOCK FALSE
