SPECIFICATION Spec
CONSTANTS
  FinalScan = TRUE
  Which = "C19"
INVARIANT C19_NoneKept
INVARIANT C19_Reported
CHECK_DEADLOCK FALSE
