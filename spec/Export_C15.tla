----------------------------- MODULE Export_C15 -----------------------------
EXTENDS MC_C15, Json, IOUtils, SequencesExt
ListSeq == SetToSeq(ExportLists)
ASSUME JsonSerialize(IOEnv.JASM_OUT, [lists |-> [n \in DOMAIN ListSeq |->
          [sections |-> ListSeq[n], argv |-> Argv("att", ListSeq[n], "FILE")]]])
=============================================================================
