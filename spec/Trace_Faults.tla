---------------------------- MODULE Trace_Faults ----------------------------
(***************************************************************************)
(* Trace validation of single-fault executions (C17): each case names the  *)
(* fault kind injected into an otherwise valid (rule, input) pair whose    *)
(* fault-free verdict is "found", the mode, and what the real operation    *)
(* did (error / found / notfound).  The observed terminal outcome must be  *)
(* a terminal outcome of JasmOperation under that fault.                   *)
(***************************************************************************)
EXTENDS Naturals, Sequences, Json, IOUtils, TLC
Op == INSTANCE JasmOperation WITH mode <- "text", fault <- "none", stage <- 1, outcome <- "running", scanned <- FALSE
Cases == JsonDeserialize(IOEnv.JASM_CASES).cases
VARIABLES idx, verdict
Check(c) ==
    IF c.fault # "none" /\ c.fault \notin Op!FaultKinds THEN "rej:MACHINERY_UnknownFault"
    ELSE IF c.fault # "none" /\ c.mode \notin Op!FaultTable[c.fault][2] THEN "rej:MACHINERY_NotApplicable"
    ELSE IF c.outcome \in Op!Terminal(c.fault) THEN (IF c.fault = "none" /\ c.outcome # "found" THEN "rej:MACHINERY_BaselineNotFound" ELSE "ok")
    ELSE IF c.outcome = "notfound" THEN "rej:C17_SilentNotFound"
    ELSE IF c.outcome = "found" THEN "rej:C17_FaultIgnored"
    ELSE "rej:C17_UnexpectedError"
TInit == idx \in DOMAIN Cases /\ verdict = "?"
TNext == verdict = "?" /\ verdict' = Check(Cases[idx]) /\ UNCHANGED idx
TSpec == TInit /\ [][TNext]_<<idx, verdict>>
=============================================================================
