------------------------------- MODULE Apa_C14 -------------------------------
(***************************************************************************)
(* The inductive core of C14 for histories of UNBOUNDED length, for the    *)
(* Apalache symbolic model checker (typed restatement of JasmSession over  *)
(* the same rule table; TLC checks JasmSession itself up to MaxOps).       *)
(*   IndInv /\ Next => IndInv'   and   Init => IndInv                      *)
(* with  IndInv == between operations the global configuration is the last *)
(* constructed rule's, a pending handle carries its own rule's flags, and  *)
(* every Match ran under its own rule's configuration.                     *)
(***************************************************************************)
EXTENDS Integers, Sequences, FiniteSets

\* @typeAlias: cfg = { mfm: Bool, ofm: Bool, style: Str, range: Seq(Str), sections: Seq(Str) };
\* @typeAlias: handle = { rule: Str, mfm: Bool, ofm: Bool };
Apa_C14_aliases == TRUE

VARIABLES
    \* @type: $cfg;
    g,
    \* @type: Set($handle);
    pending,
    \* @type: Str;
    last,
    \* @type: { valid: Bool, rule: Str, eff: $cfg };
    lastEff

RuleIds == {"plain", "mfm", "ofm", "range", "sections", "style"}
\* @type: (Bool, Bool, Str, Seq(Str), Seq(Str)) => $cfg;
C(mfm, ofm, style, range, sections) == [mfm |-> mfm, ofm |-> ofm, style |-> style, range |-> range, sections |-> sections]
\* @type: Seq(Str);
NoStrs == <<>>
\* CfgOf(Cfg[r]) of MC_C14, as a table
\* @type: Str => $cfg;
CfgOfRule(r) ==
    IF r = "mfm" THEN C(TRUE, FALSE, "att", NoStrs, NoStrs)
    ELSE IF r = "ofm" THEN C(FALSE, TRUE, "att", NoStrs, NoStrs)
    ELSE IF r = "range" THEN C(FALSE, FALSE, "att", <<"0x401000", "0x401010">>, NoStrs)
    ELSE IF r = "sections" THEN C(FALSE, FALSE, "att", NoStrs, <<".foo">>)
    ELSE C(FALSE, FALSE, "att", NoStrs, NoStrs)
Pristine == C(FALSE, FALSE, "att", NoStrs, NoStrs)

Init == /\ g = Pristine /\ pending = {} /\ last = "none"
        /\ lastEff = [valid |-> FALSE, rule |-> "", eff |-> Pristine]

Construct(r) ==
    /\ pending = {}                                   \* Atomic: complete operations
    /\ g' = CfgOfRule(r)
    /\ pending' = {[rule |-> r, mfm |-> CfgOfRule(r).mfm, ofm |-> CfgOfRule(r).ofm]}
    /\ last' = r
    /\ UNCHANGED lastEff
Match(h) ==
    /\ h \in pending
    /\ lastEff' = [valid |-> TRUE, rule |-> h.rule,
                   eff |-> [mfm |-> h.mfm, ofm |-> h.ofm, style |-> g.style, range |-> g.range, sections |-> g.sections]]
    /\ pending' = pending \ {h}
    /\ UNCHANGED <<g, last>>
Next == (\E r \in RuleIds : Construct(r)) \/ (\E h \in pending : Match(h))

IndInv ==
    /\ last \in RuleIds \cup {"none"}
    /\ (last # "none" => g = CfgOfRule(last))
    /\ (last = "none" => pending = {})
    /\ \A h \in pending : h.rule = last /\ h.mfm = CfgOfRule(last).mfm /\ h.ofm = CfgOfRule(last).ofm
    /\ (lastEff.valid => lastEff.rule \in RuleIds /\ lastEff.eff = CfgOfRule(lastEff.rule))
\* used as --init for the inductive step: any state of the right shape that satisfies IndInv
Cfgs == { CfgOfRule(r) : r \in RuleIds }
Handles == { [rule |-> r, mfm |-> m, ofm |-> o] : r \in RuleIds, m \in BOOLEAN, o \in BOOLEAN }
IndInit ==
    /\ g \in Cfgs
    /\ pending \in SUBSET Handles
    /\ last \in RuleIds \cup {"none"}
    /\ lastEff \in { [valid |-> v, rule |-> r, eff |-> e] : v \in BOOLEAN, r \in RuleIds \cup {""}, e \in Cfgs }
    /\ IndInv
C14 == lastEff.valid => lastEff.eff = CfgOfRule(lastEff.rule)
=============================================================================
