----------------------------- MODULE Export_C12 -----------------------------
EXTENDS U_C12, Json, IOUtils
ASSUME JsonSerialize(IOEnv.JASM_OUT, [m |-> Universe, n |-> UniverseN])
VARIABLE x
Init == x = 0
Next == x' = x
=============================================================================
