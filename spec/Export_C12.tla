----------------------------- MODULE Export_C12 -----------------------------
EXTENDS U_C12, Json, IOUtils
UR == INSTANCE U_Range
ASSUME JsonSerialize(IOEnv.JASM_OUT, [m |-> Universe, n |-> UniverseN, r |-> UR!UniverseRange])
VARIABLE x
Init == x = 0
Next == x' = x
=============================================================================
