SPECIFICATION MCSpec
CONSTANTS
  FinalScan = FALSE
  Scheme = "fixed"
  RuleDocs <- Docs
  Listings <- Lsts
INVARIANT EndToEnd
CHECK_DEADLOCK FALSE
