---------------------------- MODULE MC_MacroPass ----------------------------
(***************************************************************************)
(* JasmMacroPass over the documents of U_C13 (supported use forms: the      *)
(* algorithm must compute the inlined document) and of U_C19 (every         *)
(* reference position: nothing may be silently kept).                       *)
(***************************************************************************)
EXTENDS JasmMacroPass
CONSTANT Which     \* "C13" or "C19"
U13 == INSTANCE U_C13 WITH MaxUses <- 2
U19 == INSTANCE U_C19
Init == IF Which = "C13"
        THEN \E p \in U13!Patterns : InitWith(p, U13!AllMacros)
        ELSE \E b \in U19!Base : InitWith(b.pattern, b.defs)
Spec == Init /\ [][Next]_vars
C13_WhenSupported == Which = "C13" => (outcome # "error" /\ C13_IsInlined)
=============================================================================
