SPECIFICATION Spec
CONSTANTS
  Scheme = "fixed"
  MaxL = 3
  Part = "not"
INVARIANT CompileRefines
CHECK_DEADLOCK FALSE
