SPECIFICATION Spec
CONSTANTS
  Scheme = "fixed"
  MaxL = 3
  Part = "regs"
INVARIANT CompileRefines
CHECK_DEADLOCK FALSE
