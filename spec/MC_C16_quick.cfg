SPECIFICATION Spec
CONSTANTS
  MaxEdits = 2
  MaxLen = 5
INVARIANT Derived
PROPERTY C16_EditKeepsStream
CHECK_DEADLOCK FALSE
