SPECIFICATION Spec
CONSTANTS
  MaxListing = 4
  RegWidths <- Widths
INVARIANT C05_Subst
CHECK_DEADLOCK FALSE
