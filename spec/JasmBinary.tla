------------------------------ MODULE JasmBinary ------------------------------
(***************************************************************************)
(* The binary route (C15): JASM runs the disassembler itself and feeds its *)
(* output to the same parser as the text route.                            *)
(*                                                                         *)
(*   Argv(style, sections, file)   the command line handed to objdump      *)
(*   Objdump(obj, secs)            abstract objdump: the listing of the    *)
(*                                 selected sections in FILE order, or     *)
(*                                 ok = FALSE if a named section is absent    *)
(*   C15: stream of the binary route = stream of the text route applied to *)
(*        what `objdump -d -M att [-j s]...` prints for the file           *)
(***************************************************************************)
EXTENDS Naturals, Sequences, FiniteSets

StyleArg(style) == IF style = "intel" THEN "Intel" ELSE "att"
RECURSIVE SectionFlags(_)
SectionFlags(secs) == IF secs = <<>> THEN <<>> ELSE <<"-j", Head(secs)>> \o SectionFlags(Tail(secs))
Argv(style, secs, file) == <<"objdump", "-d", "-M", StyleArg(style)>> \o SectionFlags(secs) \o <<file>>

\* abstract object file: sequence of [name, exec, insns]
Names(obj) == { obj[n].name : n \in DOMAIN obj }
Selected(obj, secs) ==
    IF secs = <<>> THEN SelectSeq(obj, LAMBDA s : s.exec)
    ELSE SelectSeq(obj, LAMBDA s : \E k \in DOMAIN secs : secs[k] = s.name)
RECURSIVE Cat(_)
Cat(ss) == IF ss = <<>> THEN <<>> ELSE Head(ss).insns \o Cat(Tail(ss))
Objdump(obj, secs) ==
    IF \E k \in DOMAIN secs : secs[k] \notin Names(obj) THEN [ok |-> FALSE, insns |-> <<>>]
    ELSE [ok |-> TRUE, insns |-> Cat(Selected(obj, secs))]

\* the two routes as the specification sees them
BinaryRoute(obj, style, secs) == Objdump(obj, secs)
TextRoute(obj, secs) == Objdump(obj, secs)     \* the user runs objdump -d -M att [-j s]... and passes the text
=============================================================================
