----------------------------- MODULE Export_C08 -----------------------------
EXTENDS U_C08, Json, IOUtils
ASSUME JsonSerialize(IOEnv.JASM_OUT, Export)
VARIABLE x
Init == x = 0
Next == x' = x
=============================================================================
