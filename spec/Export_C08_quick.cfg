INIT Init
NEXT Next
CONSTANTS
  MaxBlocks = 2
  MaxOps = 2
