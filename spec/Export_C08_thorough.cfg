INIT Init
NEXT Next
CONSTANTS
  MaxBlocks = 3
  MaxOps = 3
