----------------------------- MODULE Trace_Repo -----------------------------
(***************************************************************************)
(* Code -> spec validation of the executions the repository's own tests    *)
(* trigger (tests/configuration.yaml): the rule document is shipped as a   *)
(* raw tree; TLC inlines its macros (InlineRef), reads it with the         *)
(* document grammar (Parse) and decides whether it lies inside the         *)
(* literal-name scope of the pattern semantics.                            *)
(*   always checked   stream well-formed and separator-free (C10), every   *)
(*                    reported match instruction-aligned with a genuine    *)
(*                    address (C07), the modes agree (C12)                 *)
(*   inside the scope additionally: every match genuine, the scan complete *)
(*                    and leftmost (C01-C06, C11), against the listing the  *)
(*                    stream decodes to                                     *)
(***************************************************************************)
EXTENDS JasmSyntax, JasmKnown, Json, IOUtils
S == INSTANCE JasmScan WITH n <- 0, spans <- {}, firstOnly <- FALSE, pos <- 0, reported <- <<>>, done <- FALSE
Cases == JsonDeserialize(IOEnv.JASM_CASES).cases
VARIABLES idx, lst, pat, verdict      \* lst / pat: the decoded stream and the parsed pattern, computed once per case

RECURSIVE Names(_)
Names(p) == (IF p.k \in {"ins", "lit", "flit"} THEN {p.name} ELSE {}) \cup UNION { Names(p.kids[n]) : n \in DOMAIN p.kids }
Supported(P) ==
    /\ ~HasErr(P) /\ ~Nullable(P) /\ CapsOnSpine(P)
    /\ \A nm \in Names(P) : LiteralName(nm) /\ ~HexImmName(nm) /\ ~IsPrefixStr("@", nm) /\ nm # ""
    \* captures with `times', $deref with `times' and similar unspecified shapes are not judged
    /\ ~HasKind(P, {"oexact", "rexact", "xins"})

Pairs(rep) == [a \in DOMAIN rep |-> <<rep[a].s, rep[a].e>>]
Aligned(rep) == \A a \in DOMAIN rep : rep[a].s >= 1 /\ rep[a].raw = ""

Check(c, L, P) ==
    IF ~ListOK(L) \/ Encode(L) # c.stream THEN "rej:C10_FieldSeparator"
    ELSE IF ~(Aligned(c.all) /\ Aligned(c.first)) THEN "rej:C07_Aligned"
    ELSE LET all == Pairs(c.all)
             fst == Pairs(c.first)
         IN
         IF ~S!Disjoint(all) \/ ~S!Increasing(all) THEN "rej:C11_Order"
         ELSE IF fst # SubSeq(all, 1, IF all = <<>> THEN 0 ELSE 1) THEN "rej:C12_FirstPrefix"
         ELSE IF c.all_addr # [a \in DOMAIN all |-> L[all[a][1]].addr] THEN "rej:C07_Addr"
         ELSE IF c.first_addr # [a \in DOMAIN fst |-> L[fst[a][1]].addr] THEN "rej:C12_AddrFirst"
         ELSE IF \E b \in DOMAIN c.bools : c.bools[b] # (all # <<>>) THEN "rej:C12_Bool"
         ELSE IF ~Supported(P) \/ c.ranged THEN (IF all # <<>> THEN "ok:unjudged:F" ELSE "ok:unjudged:N")
         ELSE LET cx == Cx(L, c.mfm, c.ofm)
                  \* only the starts that matter: every reported start, and every instruction for completeness
                  sp == Spans(P, cx)
              IN IF ~S!Genuine(sp, all) THEN "rej:Genuine"
                 ELSE IF (all = <<>>) # (sp = {}) THEN "rej:Verdict"
                 ELSE IF ~S!ValidScanAll(sp, Len(L), all) THEN "rej:C11_Scan"
                 ELSE IF all # <<>> THEN "ok:F" ELSE "ok:N"

Init == idx \in DOMAIN Cases /\ verdict = "?" /\ lst = <<>> /\ pat = ErrNode("not parsed yet")
Prepare ==
    /\ verdict = "?"
    /\ LET c == Cases[idx] IN
         IF c.outcome # "ok" THEN verdict' = "skip:OperationFails" /\ UNCHANGED <<lst, pat>>
         ELSE IF ~StreamWellFormed(c.stream) THEN verdict' = "rej:C10_WellFormed" /\ UNCHANGED <<lst, pat>>
         ELSE /\ verdict' = "prepared"
              /\ lst' = Decode(c.stream)
              /\ pat' = Parse(InlineRef(c.pattern, c.macros))
    /\ UNCHANGED idx
Decide == verdict = "prepared" /\ verdict' = Check(Cases[idx], lst, pat) /\ UNCHANGED <<idx, lst, pat>>
Next == Prepare \/ Decide
Spec == Init /\ [][Next]_<<idx, lst, pat, verdict>>
=============================================================================
