----------------------------- MODULE JasmCompile -----------------------------
(***************************************************************************)
(* Design-level model of the pattern -> regular expression compile scheme  *)
(* AS IMPLEMENTED (tree_generators/, after the fix commits): Compile maps  *)
(* an abstract pattern to a regex of JasmRegex, node kind by node kind,    *)
(* with the capture-group numbering of the capture manager (registration   *)
(* order = build order).                                                   *)
(*                                                                         *)
(* MC_Compile checks the refinement: on the instruction stream Encode(L),  *)
(* the compiled regex matches from the first character of instruction i to *)
(* exactly the instruction boundaries EndsAt(P, L, i) of the reference     *)
(* semantics (JasmPattern), and can start nowhere else except inside the   *)
(* address of an instruction at which it also starts (so that the leftmost *)
(* search is always instruction aligned, C07).                             *)
(*                                                                         *)
(* Scheme = "fixed" is the current tree; "pinned" re-introduces the        *)
(* schemes of findings F1 ($and+times), F2 (unanchored $not), F4 (optional *)
(* comma after an operand back-reference): TLC must find counterexamples.  *)
(* The model is bound to the code only by comparing RText(Compile(P)) with *)
(* MasterOfPuppets.regex_rule; a difference is reported as model drift in  *)
(* the evidence, never as a violation.                                     *)
(***************************************************************************)
EXTENDS JasmPattern, JasmRegex
CONSTANT Scheme

Big == 100000
HexLower == "0123456789abcdef"
ADDR     == RCat(<<RRep(RClass(HexLower, FALSE, "[\\dabcedf]"), 1, Big, "+"), RLit("::", "::")>>)
NameWin  == RRep(RClass(",|", TRUE, "[^,|]"), 0, 1000, "{0,1000}")
Comma    == RLit(",", ",")
SkipEnd  == RCat(<<RRep(RClass("|", TRUE, "[^|]"), 0, 1000, "{0,1000}"), RLit("|", "\\|")>>)
SkipOp   == RCat(<<NameWin, Comma>>)
OptPct   == RRep(RLit("%", "%"), 0, 1, "?")
Opt0x    == RRep(RNcg(RLit("0x", "0x")), 0, 1, "?")
OptComma == RRep(Comma, 0, 1, "?")
RegEnd   == RPLook(RClass(",+*]", FALSE, "[,+*\\]]"))

NameRx(n, full) == IF full THEN RCat(<<RLit(n, n), Comma>>) ELSE RCat(<<NameWin, RLit(n, n), NameWin, Comma>>)
QText(p) == IF p.lo = p.hi THEN "{" \o ToString(p.lo) \o "}" ELSE "{" \o ToString(p.lo) \o "," \o ToString(p.hi) \o "}"
Timed(p) == ~(p.lo = 1 /\ p.hi = 1)
WithT(r, p) == IF Timed(p) THEN RRep(r, p.lo, p.hi, QText(p)) ELSE r

\* permutations of 1..n in the order itertools.permutations yields them
RECURSIVE PermsOf(_), PermsFrom(_, _)
PermsFrom(s, k) ==
    IF k > Len(s) THEN <<>>
    ELSE LET sub == PermsOf(SubSeq(s, 1, k - 1) \o SubSeq(s, k + 1, Len(s)))
         IN [n \in DOMAIN sub |-> <<s[k]>> \o sub[n]] \o PermsFrom(s, k + 1)
PermsOf(s) == IF Len(s) <= 1 THEN <<s>> ELSE PermsFrom(s, 1)
PermSeq(n) == IF n = 0 THEN <<>> ELSE PermsOf([k \in 1..n |-> k])

\* ---- capture numbering -------------------------------------------------------
DerefOrder(d) ==   \* the fields of a $deref in emission (= build) order
    LET pick(f) == SelectSeq(d.kids, LAMBDA x : x.name = f) IN
    pick("main_reg") \o pick("register_multiplier") \o pick("constant_multiplier") \o pick("constant_offset")
IsCap(p) == p.k \in {"icap", "ocap", "rcap", "fcap", "frcap"}
RECURSIVE BuildSeq(_)
BuildSeq(p) ==     \* capture names in build order, with repetitions
    (IF IsCap(p) THEN <<p.name>> ELSE <<>>)
    \o (LET ks == IF p.k = "deref" THEN DerefOrder(p) ELSE p.kids
            RECURSIVE Cat(_)
            Cat(s) == IF s = <<>> THEN <<>> ELSE BuildSeq(Head(s)) \o Cat(Tail(s))
        IN Cat(ks))
RECURSIVE Dedupe(_, _)
Dedupe(s, seen) == IF s = <<>> THEN <<>>
                   ELSE IF Head(s) \in seen THEN Dedupe(Tail(s), seen)
                   ELSE <<Head(s)>> \o Dedupe(Tail(s), seen \cup {Head(s)})
Table(P) == Dedupe(BuildSeq(P), {})
IndexOf(tab, n) == CHOOSE k \in DOMAIN tab : tab[k] = n

\* ---- register templates --------------------------------------------------------
L1(s) == RLit(s, s)
RegTemplate(fam, w, X) ==
    LET any == RRep(RClass("re", FALSE, "[re]"), 0, 1, "?") IN
    CASE fam = "genreg" ->
            (CASE w = "64" -> RCat(<<L1("r"), X, L1("x")>>) [] w = "32" -> RCat(<<L1("e"), X, L1("x")>>)
               [] w = "16" -> RCat(<<X, L1("x")>>) [] w = "8h" -> RCat(<<X, L1("h")>>) [] w = "8l" -> RCat(<<X, L1("l")>>)
               [] OTHER -> RCat(<<any, X, RClass("xhl", FALSE, "[xhl]")>>))
      [] fam = "indreg" ->
            (CASE w = "64" -> RCat(<<L1("r"), X, L1("i")>>) [] w = "32" -> RCat(<<L1("e"), X, L1("i")>>)
               [] w = "16" -> RCat(<<X, L1("i")>>) [] w = "8l" -> RCat(<<X, L1("il")>>)
               [] OTHER -> RCat(<<any, X, L1("i"), RRep(L1("l"), 0, 1, "?")>>))
      [] OTHER ->
            (CASE w = "64" -> RCat(<<L1("r"), X>>) [] w = "32" -> RCat(<<L1("e"), X>>)
               [] w = "16" -> X [] w = "8l" -> RCat(<<X, L1("l")>>)
               [] OTHER -> RCat(<<any, X, RRep(L1("l"), 0, 1, "?")>>))
RegGroup(fam, idx) ==
    CASE fam = "genreg" -> RGrp(idx, RClass("abcd", FALSE, "[abcd]"))
      [] fam = "indreg" -> RGrp(idx, RClass("sd", FALSE, "[sd]"))
      [] fam = "stackreg" -> RGrp(idx, L1("sp"))
      [] OTHER -> RGrp(idx, L1("bp"))
RegCapRx(q, idx, first) ==
    \* a later use splices CaptureGroupIndexRegisterCall.to_regex() = "\N,?" into the template -- the stray
    \* optional comma sits INSIDE the register name (harmless for real register operands; mirrored here)
    RCat(<<OptPct, RegTemplate(q.fam, q.w, IF first THEN RegGroup(q.fam, idx) ELSE RCat(<<RRef(idx), OptComma>>)), RegEnd, OptComma>>)

\* ---- the compile function, threading the set of already registered captures ----------
Out(r, seen) == [r |-> r, seen |-> seen]
RECURSIVE Comp(_, _, _, _), CompSeq(_, _, _, _)
CompSeq(ks, tab, cx, seen) ==
    IF ks = <<>> THEN [rs |-> <<>>, seen |-> seen]
    ELSE LET h == Comp(Head(ks), tab, cx, seen)
             t == CompSeq(Tail(ks), tab, cx, h.seen)
         IN [rs |-> <<h.r>> \o t.rs, seen |-> t.seen]

AltOf(rs) == RNcg(RAlt([n \in DOMAIN rs |-> RNcg(rs[n])]))
PermOf(rs) ==
    LET ps == PermSeq(Len(rs)) IN
    RNcg(RAlt([n \in DOMAIN ps |-> RNcg(RNcg(RCat([m \in DOMAIN rs |-> rs[ps[n][m]]])))]))

Comp(p, tab, cx, seen) ==
    LET first == IsCap(p) /\ p.name \notin seen
        idx   == IF IsCap(p) THEN IndexOf(tab, p.name) ELSE 0
        seen1 == IF IsCap(p) THEN seen \cup {p.name} ELSE seen
    IN
    CASE p.k = "ins" ->
            LET o == CompSeq(p.kids, tab, cx, seen)
                inner == RNcg(RCat(<<NameRx(p.name, cx.mfm)>> \o o.rs \o <<SkipEnd>>))
            IN Out(IF Timed(p) THEN WithT(RNcg(RCat(<<ADDR, inner>>)), p) ELSE RCat(<<ADDR, inner>>), o.seen)
      [] p.k \in {"and", "oand"} ->
            LET o == CompSeq(p.kids, tab, cx, seen) IN
            Out(WithT(RNcg(RCat(o.rs \o (IF Scheme = "pinned" /\ p.k = "and" /\ Timed(p) THEN <<SkipEnd>> ELSE <<>>))), p), o.seen)
      [] p.k \in {"or", "oor"} ->
            LET o == CompSeq(p.kids, tab, cx, seen) IN Out(WithT(AltOf(o.rs), p), o.seen)
      [] p.k \in {"perm", "operm"} ->
            LET o == CompSeq(p.kids, tab, cx, seen) IN Out(WithT(PermOf(o.rs), p), o.seen)
      [] p.k = "not" ->
            LET o == CompSeq(p.kids, tab, cx, seen) IN
            Out(WithT(RNcg(RCat(<<RNLook(RCat(o.rs))>> \o (IF Scheme = "pinned" THEN <<>> ELSE <<ADDR>>) \o <<SkipEnd>>)), p), o.seen)
      [] p.k = "onot" ->
            LET o == CompSeq(p.kids, tab, cx, seen) IN
            Out(WithT(RNcg(RCat(<<RNLook(RCat(o.rs)), SkipOp>>)), p), o.seen)
      [] p.k = "lit"  -> Out(NameRx(p.name, cx.ofm), seen)
      [] p.k = "icap" ->
            Out(IF first THEN RCat(<<ADDR, RGrp(idx, RRep(RClass("|", TRUE, "[^|]"), 1, Big, "+")), RLit(",|", ",\\|")>>)
                ELSE RCat(<<ADDR, RRef(idx), RLit(",|", ",\\|")>>), seen1)
      [] p.k = "ocap" ->
            Out(IF first THEN RCat(<<RGrp(idx, RRep(RClass(",|", TRUE, "[^,|]"), 1, Big, "+")), Comma>>)
                ELSE RCat(<<RRef(idx), IF Scheme = "pinned" THEN OptComma ELSE Comma>>), seen1)
      [] p.k \in {"rcap", "frcap"} -> Out(RegCapRx(p, idx, first), seen1)
      [] p.k = "flit" -> Out(RLit(p.name, p.name), seen)
      [] p.k = "for"  -> LET o == CompSeq(p.kids, tab, cx, seen) IN Out(AltOf(o.rs), o.seen)
      [] p.k = "fcap" ->
            Out(IF first THEN RGrp(idx, RRep(RClass(",|+*]", TRUE, "[^,|+*\\]]"), 1, Big, "+"))
                ELSE RCat(<<RRef(idx), OptComma>>), seen1)
      [] p.k = "deref" ->
            LET fs == DerefOrder(p)
                o  == CompSeq([n \in DOMAIN fs |-> fs[n].kids[1]], tab, cx, seen)
                F(name) == o.rs[CHOOSE n \in DOMAIN fs : fs[n].name = name]
                has(name) == \E n \in DOMAIN fs : fs[n].name = name
                A == RCat(<<OptPct, F("main_reg")>>)
                B == RCat(<<OptPct, F("register_multiplier")>>)
                C == RCat(<<Opt0x, F("constant_multiplier")>>)
                K == RCat(<<Opt0x, F("constant_offset")>>)
                mid == IF has("register_multiplier") /\ has("constant_multiplier") THEN <<RLit("+", "\\+"), B, RLit("*", "\\*"), C>>
                       ELSE IF has("register_multiplier") THEN <<RLit("+", "\\+"), B>>
                       ELSE IF has("constant_multiplier") THEN <<RLit("+", "\\+"), C>> ELSE <<>>
                tail == IF has("constant_offset") THEN <<RLit("+", "\\+"), K>> ELSE <<>>
                body == RCat(<<RLit("[", "\\[")>> \o <<A>> \o mid \o tail \o <<RLit("]", "\\]")>>)
            IN Out(IF Timed(p) THEN WithT(RNcg(RCat(<<body, Comma>>)), p) ELSE RCat(<<body, Comma>>), o.seen)
      [] OTHER -> Out(REmpty, seen)

Compile(P, cx) == Comp(P, Table(P), cx, {}).r
=============================================================================
