----------------------------- MODULE MC_Objdump -----------------------------
(***************************************************************************)
(* Design-level consistency of JasmObjdump on the universe of U_C08: the   *)
(* recogniser (ParseLine, NormOfText) and the generator (LineText, Stream) *)
(* agree, so that the code -> spec direction (real objdump text) and the   *)
(* spec -> code direction (printed abstract listings) use one grammar; and *)
(* what Stream yields is separator-free and round-trips through the        *)
(* encoding (C10).                                                         *)
(***************************************************************************)
EXTENDS U_C08
VARIABLES ls, res
vars == <<ls, res>>

Holds(listing) ==
    LET lines == ListingLines(listing)
        T     == TextInsns(lines)
        S     == Stream(listing)
        insns == SelectSeq(listing, IsInsn)
    IN
    /\ Len(T) = Len(S) /\ Len(S) = Len(insns)
    /\ \A n \in DOMAIN listing : (ParseLine(lines[n]).kind = "insn") <=> IsInsn(listing[n])
    /\ \A n \in DOMAIN T :
          /\ T[n].addr = S[n].addr /\ StreamMn(T[n].mn) = S[n].mn
          /\ Len(T[n].ops) = Len(S[n].ops)
          /\ \A k \in DOMAIN T[n].ops :
                /\ T[n].ops[k] = AttText(insns[n].ops[k])
                /\ insns[n].ops[k].t # "raw" =>
                      (NormOfText(T[n].ops[k]).ok /\ NormOfText(T[n].ops[k]).v = S[n].ops[k])
    /\ ListOK(S) /\ Decode(Encode(S)) = S

Init == ls \in Listings \cup OpListings /\ res = "?"
Next == res = "?" /\ res' = (IF Holds(ls) THEN "ok" ELSE "bad") /\ UNCHANGED ls
Spec == Init /\ [][Next]_vars
GrammarConsistent == res # "bad"
=============================================================================
