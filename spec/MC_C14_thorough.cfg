SPECIFICATION Spec
CONSTANTS
  Rules <- RuleIds
  Cfg <- CfgTable
  Atomic = TRUE
  MaxOps = 3
INVARIANT C14_OwnConfig
INVARIANT C14_Inductive
CHECK_DEADLOCK FALSE
