------------------------------- MODULE MC_C18 -------------------------------
(***************************************************************************)
(* Design-level check of C18.                                              *)
(*  (1) the digit-sequence order HexLE (TLC integers are 32 bit) agrees    *)
(*      with the arithmetic order for every pair of hexadecimal numerals   *)
(*      of up to MaxDigits digits in every spelling (0x, leading zeros,    *)
(*      upper case);                                                       *)
(*  (2) the canonical tagging is an allowed tagging, keeps number, order   *)
(*      and addresses, and tags exactly the direct call/jmp in range.      *)
(***************************************************************************)
EXTENDS U_C18
CONSTANT MaxDigits
VARIABLES k, a, b, res
vars == <<k, a, b, res>>

Digs == {"0", "1", "9", "a", "F"}
Numerals == UNION { { JoinStr(s, "") : s \in [1..n -> Digs] } : n \in 1..MaxDigits }
Spellings(x) == {x, "0x" \o x, "0" \o x, "0x00" \o x}

HoldsHex(x, y) ==
    \A sx \in Spellings(x), sy \in Spellings(y) : HexLE(sx, sy) <=> HexVal(x) <= HexVal(y)
HoldsTag(L, r) ==
    LET O == TagListing(L, r[1], r[2]) IN
    /\ AllowedTagging(L, O, r[1], r[2])
    /\ Len(O) = Len(L)
    /\ \A n \in DOMAIN L :
          /\ O[n].addr = L[n].addr /\ O[n].mn = L[n].mn
          /\ (O[n].ops = <<TagOperand>>) <=>
                (L[n].mn \in {"call", "jmp"} /\ L[n].ops # <<>> /\ IsHexNumeral(L[n].ops[1])
                 /\ HexLE(r[1], L[n].ops[1]) /\ HexLE(L[n].ops[1], r[2]))
          /\ (O[n].ops # <<TagOperand>> => O[n] = L[n])

\* (3) the shipped observer chain, as implemented, equals the composed chain on every instruction
HoldsChain(L, r) ==
    LET chain == << <<"empty">>, <<"valid", r[1], r[2]>> >> IN
    \A n \in DOMAIN L : \A i \in {L[n], [L[n] EXCEPT !.mn = "empty"]} :
        ChainImpl(chain, i, i) = ChainComposed(chain, i)
\* control: with a second transforming observer the implemented chain loses the first transformation
ChainControl == \E i \in {Ins("1", "call", <<"401000">>)} :
    LET chain == << <<"valid", "0x401000", "0x401000">>, <<"upper">> >> IN ChainImpl(chain, i, i) # ChainComposed(chain, i)
ASSUME ChainControl

Init == \/ k = "hex" /\ a \in Numerals /\ b \in Numerals /\ res = "?"
        \/ k = "tag" /\ a \in Listings /\ b \in Ranges /\ res = "?"
Next == /\ res = "?"
        /\ res' = (IF (IF k = "hex" THEN HoldsHex(a, b) ELSE HoldsTag(a, b) /\ HoldsChain(a, b)) THEN "ok" ELSE "bad")
        /\ UNCHANGED <<k, a, b>>
Spec == Init /\ [][Next]_vars
C18_Design == res # "bad"
=============================================================================
