SPECIFICATION Spec
CONSTANTS
  Scheme = "fixed"
  MaxL = 2
  Part = "regs"
INVARIANT CompileRefines
CHECK_DEADLOCK FALSE
