------------------------------ MODULE Trace_Jasm ------------------------------
(***************************************************************************)
(* Trace validation of the composed pipeline (Jasm): one trace = one real  *)
(* compile-and-match operation (first match, boolean result), one event    *)
(* per stage, recorded by harness/stagetrace.py at the return of the       *)
(* function that ends the stage.  Each event is explained by the action of *)
(* Jasm.tla of the same name with the logged values bound to the primed    *)
(* variables:                                                              *)
(*                                                                         *)
(*   LoadRule      g' = the two full-match flags as stored                 *)
(*   MacroPass     doc' = the tree after the sweep, rm' = rule_macros      *)
(*   MacroCheck    outcome' = ok / error                                   *)
(*   BuildTree     ok / error          (JasmSyntax!Parse)                  *)
(*   EmitRegex     RText(rx') = the regex text  (JasmCompile, JasmRegex)   *)
(*   ParseListing  stream' = the stream         (JasmObjdump, Encode)      *)
(*   Scan          found' = regex.search found something (JasmRegex!M)     *)
(*   Return/Raise  outcome' = found / notfound; outcome = error            *)
(*                                                                         *)
(* Grain of atomicity: an error the model detects when the tree is built   *)
(* may be raised by the code only when the regex is emitted (BuildTree ok, *)
(* EmitRegex error): TBuildTreeLate / TEmitRegexFailed.  A bad macro name  *)
(* is decided by LoadRule in the model and by resolve_all_macros in the    *)
(* code: the MacroCheck(error) event is then a stuttering step.            *)
(*                                                                         *)
(* These are implementation-shaped models: a rejected trace is DRIFT of    *)
(* the model (reported in the evidence), never a violation of a property.  *)
(***************************************************************************)
EXTENDS MC_Jasm, SequencesExt, Json, IOUtils

Cases == JsonDeserialize(IOEnv.JASM_CASES).cases      \* [u, d, l, events]: universe (1: macro documents, 2: feature documents)
DocSeq == SetToSeq(Docs)
LstSeq == SetToSeq(Lsts)
DocSeq2 == SetToSeq(Docs2)
LstSeq2 == SetToSeq(Lsts2)

VARIABLES tid, l, verdict
tvars == <<tid, l, verdict, allvars>>

Trace == Cases[tid].events
Ev == Trace[l]
IsEv(name) == verdict = "run" /\ l <= Len(Trace) /\ Ev.ev = name
Consume == l' = l + 1 /\ UNCHANGED <<tid, verdict>>
AsSet(s) == { s[n] : n \in DOMAIN s }

TraceInit ==
    /\ tid \in DOMAIN Cases /\ l = 1 /\ verdict = "run"
    /\ LET c == Cases[tid] IN
         IF c.u = 1 THEN JInitFor(DocSeq[c.d], LstSeq[c.l]) ELSE JInitFor(DocSeq2[c.d], LstSeq2[c.l])

TLoadRule ==
    /\ IsEv("LoadRule") /\ Ev.outcome = "ok"
    /\ LoadRule
    /\ g' = [mfm |-> (Ev.mfm = "True"), ofm |-> (Ev.ofm = "True")]
    /\ Consume
TMacroPass ==
    /\ IsEv("MacroPass") /\ i <= Len(defs)
    /\ Expand
    /\ defs[i].name = Ev.name
    /\ (outcome' = "error") <=> Ev.err
    /\ ~Ev.err => (doc' = Ev.doc /\ rm' = AsSet(Ev.rm))
    /\ Consume
TMacroCheck ==
    /\ IsEv("MacroCheck")
    /\ \/ /\ stage = "MacroExpand" /\ outcome = "error" /\ Ev.outcome = "error"      \* a bad macro name (decided by LoadRule)
          /\ UNCHANGED allvars
       \/ /\ i > Len(defs) /\ Expand /\ outcome' = Ev.outcome
    /\ Consume
TBuildTree ==
    /\ IsEv("BuildTree")
    /\ BuildTree
    /\ (outcome' = "error") <=> (Ev.outcome = "error")
    /\ Consume
TBuildTreeLate ==       \* the code builds the tree and fails when the regex is emitted
    /\ IsEv("BuildTree") /\ Ev.outcome = "ok"
    /\ l < Len(Trace) /\ Trace[l + 1].ev = "EmitRegex" /\ Trace[l + 1].outcome = "error"
    /\ BuildTree /\ outcome' = "error"
    /\ Consume
TEmitRegex ==
    /\ IsEv("EmitRegex") /\ Ev.outcome = "ok"
    /\ EmitRegex
    /\ RText(rx') = Ev.regex
    /\ Consume
TEmitRegexFailed ==
    /\ IsEv("EmitRegex") /\ Ev.outcome = "error"
    /\ stage = "EmitRegex" /\ outcome = "error"
    /\ UNCHANGED allvars /\ Consume
TParseListing ==
    /\ IsEv("ParseListing")
    /\ ParseListing
    /\ stream' = Ev.stream
    /\ Consume
TScan ==
    /\ IsEv("Scan") /\ Ev.outcome = "ok"
    /\ Scan
    /\ found' = Ev.found
    /\ Consume
TReturn ==
    /\ IsEv("Return")
    /\ Return
    /\ (outcome' = "found") <=> Ev.result
    /\ Consume
TRaise ==
    /\ IsEv("Raise") /\ outcome = "error"
    /\ UNCHANGED allvars /\ Consume

Step == TLoadRule \/ TMacroPass \/ TMacroCheck \/ TBuildTree \/ TBuildTreeLate \/ TEmitRegex \/ TEmitRegexFailed
        \/ TParseListing \/ TScan \/ TReturn \/ TRaise

\* why the event at l is not explained (diagnosis only; the verdict is `rej' in any case)
Why ==
    CASE Ev.ev = "LoadRule" -> IF stage # "LoadRule" THEN "NotExpectedHere" ELSE "Config"
      [] Ev.ev = "MacroPass" ->
            IF stage # "MacroExpand" \/ outcome # "running" \/ i > Len(defs) THEN "NotExpectedHere"
            ELSE IF defs[i].name # Ev.name THEN "OrderOfDefinitions"
            ELSE LET r == Pass(doc, defs[i], rm) IN
                 IF r.err # Ev.err THEN "PassOutcome" ELSE IF r.d # Ev.doc THEN "TreeAfterPass" ELSE "RuleMacros"
      [] Ev.ev = "MacroCheck" -> IF stage # "MacroExpand" THEN "NotExpectedHere" ELSE "CheckOutcome"
      [] Ev.ev = "BuildTree" -> IF stage # "BuildTree" THEN "NotExpectedHere" ELSE "TreeOutcome"
      [] Ev.ev = "EmitRegex" -> IF stage # "EmitRegex" THEN "NotExpectedHere"
                                ELSE IF Ev.outcome # "ok" \/ outcome # "running" THEN "RegexOutcome" ELSE "RegexText"
      [] Ev.ev = "ParseListing" -> IF stage # "ParseListing" \/ outcome # "running" THEN "NotExpectedHere" ELSE "Stream"
      [] Ev.ev = "Scan" -> IF stage # "Scan" \/ outcome # "running" THEN "NotExpectedHere" ELSE "Found"
      [] Ev.ev = "Return" -> IF stage # "Return" THEN "NotExpectedHere" ELSE "Result"
      [] Ev.ev = "Raise" -> "ModelDoesNotFail"
      [] OTHER -> "UnknownEvent"

Reject ==
    /\ verdict = "run" /\ l <= Len(Trace) /\ ~ENABLED Step
    /\ verdict' = "rej:" \o Ev.ev \o ":" \o Why
    /\ UNCHANGED <<tid, l, allvars>>
Accept ==
    /\ verdict = "run" /\ l > Len(Trace)
    /\ verdict' = (IF outcome \notin {"found", "notfound", "error"} THEN "rej:End:Truncated"
                   ELSE IF ~EndToEnd THEN "rej:End:EndToEnd"
                   ELSE "ok:" \o outcome)
    /\ UNCHANGED <<tid, l, allvars>>
TraceNext == Step \/ Reject \/ Accept
TraceSpec == TraceInit /\ [][TraceNext]_tvars
=============================================================================
