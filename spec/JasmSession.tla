----------------------------- MODULE JasmSession -----------------------------
(***************************************************************************)
(* The process-level state machine of JASM (C14, and the frame for C15,    *)
(* C17, C20).                                                              *)
(*                                                                         *)
(* The only state that outlives an operation is the process-global         *)
(* configuration g (JASMConfig.global_info, five keys).  It is written by  *)
(* Construct (loading a rule overwrites EVERY key, resetting absent ones   *)
(* to their defaults) and read at two different times: the full-match      *)
(* flags while the rule is compiled (inside Construct), but style, address *)
(* range and sections only later, inside Match.                            *)
(*                                                                         *)
(*   Construct(r)   g' = CfgOf(r); a handle holding the compiled rule      *)
(*   Match(h)       uses the handle's compiled flags and g's style, range  *)
(*                  and sections                                           *)
(*                                                                         *)
(* C14 quantifies over sequences of COMPLETE compile-and-match operations: *)
(* with Atomic = TRUE a Match follows its own Construct immediately.  With  *)
(* Atomic = FALSE the interleaving Construct(A); Construct(B); Match(A)    *)
(* exists and violates the invariant (non-vacuity control; reproduced on    *)
(* the real code, documented as outside C14).                              *)
(***************************************************************************)
EXTENDS Naturals, Sequences, FiniteSets

\* configuration section of a rule document: "-" / <<>> = key absent
RuleCfg(mfm, ofm, style, range, sections) ==
    [mfm |-> mfm, ofm |-> ofm, style |-> style, range |-> range, sections |-> sections]
NoCfg == RuleCfg("-", "-", "-", <<>>, <<>>)

\* load_config: every key is (re)written, absent keys get their defaults
CfgOf(c) == [mfm      |-> (c.mfm = "T"),
             ofm      |-> (c.ofm = "T"),
             style    |-> (IF c.style = "intel" THEN "intel" ELSE "att"),
             range    |-> c.range,
             sections |-> c.sections]

CONSTANTS Rules,      \* set of rule ids
          Cfg,        \* Cfg[r]: configuration section of rule r
          Atomic,     \* TRUE: complete operations only
          MaxOps
VARIABLES g,          \* the process-global configuration
          pending,    \* handles constructed and not yet matched
          hist,       \* history: sequence of <<"C"|"M", rule>>
          lastEff     \* effective configuration of the last Match
vars == <<g, pending, hist, lastEff>>

Pristine == [mfm |-> FALSE, ofm |-> FALSE, style |-> "att", range |-> <<>>, sections |-> <<>>]

NoEff == [valid |-> FALSE, rule |-> "", eff |-> Pristine]
Init == g = Pristine /\ pending = {} /\ hist = <<>> /\ lastEff = NoEff

Construct(r) ==
    /\ Len(hist) < 2 * MaxOps
    /\ Atomic => pending = {}
    /\ g' = CfgOf(Cfg[r])
    \* the rule is compiled under the flags just loaded
    /\ pending' = pending \cup {[rule |-> r, mfm |-> CfgOf(Cfg[r]).mfm, ofm |-> CfgOf(Cfg[r]).ofm]}
    /\ hist' = Append(hist, <<"C", r>>)
    /\ UNCHANGED lastEff

Effective(h) == [mfm |-> h.mfm, ofm |-> h.ofm, style |-> g.style, range |-> g.range, sections |-> g.sections]

Match(h) ==
    /\ h \in pending
    /\ lastEff' = [valid |-> TRUE, rule |-> h.rule, eff |-> Effective(h)]
    /\ pending' = pending \ {h}
    /\ hist' = Append(hist, <<"M", h.rule>>)
    /\ UNCHANGED g

Next == (\E r \in Rules : Construct(r)) \/ (\E h \in pending : Match(h))
Spec == Init /\ [][Next]_vars

\* C14: whatever came before, an operation runs under exactly the configuration its own
\* rule document states -- the one it would run under as the first operation of a fresh process
C14_OwnConfig == lastEff.valid => lastEff.eff = CfgOf(Cfg[lastEff.rule])
\* inductive core: between operations the global configuration is the last constructed rule's
C14_Inductive == (hist # <<>> /\ hist[Len(hist)][1] = "C") => g = CfgOf(Cfg[hist[Len(hist)][2]])
=============================================================================
