----------------------------- MODULE Export_C14 -----------------------------
EXTENDS MC_C14, Json, IOUtils
ASSUME JsonSerialize(IOEnv.JASM_OUT, Export)
=============================================================================
