------------------------------ MODULE JasmText ------------------------------
(***************************************************************************)
(* Text-level definitions shared by every other module of the JASM         *)
(* specification: names and fields, the instruction-stream encoding that   *)
(* is handed to the regular-expression engine (C10), and the hexadecimal   *)
(* order used by valid_addr_range (C18).                                    *)
(*                                                                         *)
(* Text is modelled with TLC strings.  TLC supports Len, \o and SubSeq on  *)
(* strings, which is all that is needed: "occurs in", "equals", "is a      *)
(* prefix of", "contains the character".                                   *)
(***************************************************************************)
EXTENDS Naturals, Sequences, FiniteSets, TLC

Ch(s, i) == SubSeq(s, i, i)

IsPrefixStr(s, t) == Len(s) <= Len(t) /\ SubSeq(t, 1, Len(s)) = s
IsSuffixStr(s, t) == Len(s) <= Len(t) /\ SubSeq(t, Len(t) - Len(s) + 1, Len(t)) = s

\* s occurs in t (the empty string occurs everywhere)
IsInfixStr(s, t) ==
    \E i \in 1..(Len(t) - Len(s) + 1) : SubSeq(t, i, i + Len(s) - 1) = s

HasChar(s, c) == \E i \in 1..Len(s) : Ch(s, i) = c

DropStr(s, n) == SubSeq(s, n + 1, Len(s))

\* position of the first occurrence of s in t at or after `from', 0 if none
RECURSIVE FindFrom(_, _, _)
FindFrom(s, t, from) ==
    IF from + Len(s) - 1 > Len(t) THEN 0
    ELSE IF SubSeq(t, from, from + Len(s) - 1) = s THEN from
    ELSE FindFrom(s, t, from + 1)

(***************************************************************************)
(* Instructions and the stream encoding (C10).                             *)
(*   address::mnemonic,operand,...,|     -- no operands: address::mn,,|   *)
(***************************************************************************)
Ins(a, m, o) == [addr |-> a, mn |-> m, ops |-> o]

\* A field may carry neither separator
FieldOK(f) == ~HasChar(f, ",") /\ ~HasChar(f, "|") /\ ~IsInfixStr("::", f)
InsOK(i) == /\ FieldOK(i.addr) /\ i.addr # ""
            /\ FieldOK(i.mn) /\ i.mn # ""
            /\ \A k \in DOMAIN i.ops : FieldOK(i.ops[k]) /\ i.ops[k] # ""
            \* an address never ends in ':' (it would merge with "::")
            /\ ~IsSuffixStr(":", i.addr) /\ ~IsPrefixStr(":", i.mn)
ListOK(L) == \A n \in DOMAIN L : InsOK(L[n])

RECURSIVE JoinStr(_, _)
JoinStr(seq, sep) ==
    IF seq = <<>> THEN ""
    ELSE IF Len(seq) = 1 THEN seq[1]
    ELSE seq[1] \o sep \o JoinStr(Tail(seq), sep)

\* instruction text without the address: what an instruction capture binds
BodyText(i) == i.mn \o "," \o JoinStr(i.ops, ",")
RecText(i)  == i.addr \o "::" \o BodyText(i) \o ",|"

RECURSIVE ConcatStr(_)
ConcatStr(seq) == IF seq = <<>> THEN "" ELSE seq[1] \o ConcatStr(Tail(seq))

Encode(L) == ConcatStr([n \in DOMAIN L |-> RecText(L[n])])
\* text of the instructions L[i..j-1]
EncodeRange(L, i, j) == ConcatStr([n \in 1..(j - i) |-> RecText(L[i + n - 1])])

\* ---- decoding ---------------------------------------------------------
RECURSIVE SplitStr(_, _)
\* split at every occurrence of the one-character separator c
SplitStr(t, c) ==
    LET p == FindFrom(c, t, 1) IN
    IF p = 0 THEN <<t>>
    ELSE <<SubSeq(t, 1, p - 1)>> \o SplitStr(DropStr(t, p), c)

DecodeRec(r) ==
    \* r is the text of one record without the final '|'
    LET p    == FindFrom("::", r, 1)
        a    == SubSeq(r, 1, p - 1)
        rest == SplitStr(DropStr(r, p + 1), ",")
        \* rest = <<mn, op1, ..., opn, "">>  (n = 0: <<mn, "", "">>)
        n    == Len(rest)
        ops  == IF n = 3 /\ rest[2] = "" THEN <<>> ELSE SubSeq(rest, 2, n - 1)
    IN  Ins(a, rest[1], ops)

Decode(t) ==
    LET recs == SplitStr(t, "|")           \* last piece is empty
    IN  [n \in 1..(Len(recs) - 1) |-> DecodeRec(recs[n])]

\* the shape every record of a stream has
RecWellFormed(r) ==
    /\ FindFrom("::", r, 1) > 1
    /\ Len(SplitStr(DropStr(r, FindFrom("::", r, 1) + 1), ",")) >= 3
    /\ IsSuffixStr(",", r)
StreamWellFormed(t) ==
    LET recs == SplitStr(t, "|") IN
    /\ recs[Len(recs)] = ""
    /\ \A n \in 1..(Len(recs) - 1) : RecWellFormed(recs[n])

(***************************************************************************)
(* Hexadecimal strings as digit sequences (TLC integers are 32 bit).       *)
(***************************************************************************)
HexDigits == <<"0","1","2","3","4","5","6","7","8","9","a","b","c","d","e","f">>
UpperHex  == <<"0","1","2","3","4","5","6","7","8","9","A","B","C","D","E","F">>
DigitVal(c) ==
    IF \E v \in 1..16 : HexDigits[v] = c THEN (CHOOSE v \in 1..16 : HexDigits[v] = c) - 1
    ELSE IF \E v \in 1..16 : UpperHex[v] = c THEN (CHOOSE v \in 1..16 : UpperHex[v] = c) - 1
    ELSE 16
IsHexDigit(c) == DigitVal(c) < 16
IsHexStr(s) == s # "" /\ \A i \in 1..Len(s) : IsHexDigit(Ch(s, i))

Strip0x(s) == IF IsPrefixStr("0x", s) THEN DropStr(s, 2) ELSE s
RECURSIVE StripZeros(_)
StripZeros(s) == IF Len(s) > 1 /\ Ch(s, 1) = "0" THEN StripZeros(DropStr(s, 1)) ELSE s
HexNorm(s) == StripZeros(Strip0x(s))
\* a hexadecimal numeral as JASM accepts it in a range bound or branch target
IsHexNumeral(s) == IsHexStr(Strip0x(s))

RECURSIVE LexLE(_, _)
LexLE(a, b) ==   \* same length
    IF a = "" THEN TRUE
    ELSE IF DigitVal(Ch(a, 1)) < DigitVal(Ch(b, 1)) THEN TRUE
    ELSE IF DigitVal(Ch(a, 1)) > DigitVal(Ch(b, 1)) THEN FALSE
    ELSE LexLE(DropStr(a, 1), DropStr(b, 1))

HexLE(a, b) ==
    LET x == HexNorm(a)  y == HexNorm(b) IN
    IF Len(x) # Len(y) THEN Len(x) < Len(y) ELSE LexLE(x, y)

\* arithmetic value, only for short strings (validation of HexLE)
RECURSIVE HexValAcc(_, _)
HexValAcc(s, acc) == IF s = "" THEN acc ELSE HexValAcc(DropStr(s, 1), acc * 16 + DigitVal(Ch(s, 1)))
HexVal(s) == HexValAcc(Strip0x(s), 0)
=============================================================================
