------------------------------- MODULE U_C19 -------------------------------
(***************************************************************************)
(* Universe of C19: rules with at least one macro definition supplied (in  *)
(* the file or through an extra macro file) and one reference in every     *)
(* position a reference can occupy -- list item, operand, dict value,      *)
(* dict key with a body, dict key with a times body, inside a group,       *)
(* inside a longer name, inside a macro body with the user listed before   *)
(* or after the macro it uses -- to a list macro, a string macro and an    *)
(* undefined name; plus definitions whose own name lacks the @.            *)
(***************************************************************************)
EXTENDS JasmMacro, SequencesExt
MP == INSTANCE JasmMacroPass WITH FinalScan <- TRUE, orig <- 0, defs <- 0, doc <- 0, rm <- 0, i <- 0, outcome <- 0

S(x) == DStr(x)
L(xs) == DList(xs)
D_a == MacroDef("@a", <<>>, L(<<S("push")>>))
D_s == MacroDef("@s", <<>>, S("mov"))
D_other == MacroDef("@other", <<>>, L(<<S("nop")>>))
Refs == {"@a", "@s", "@x", "@x-y", "@y.z"}       \* @x, @x-y and @y.z have no definition (and contain no defined name)
User(r) == MacroDef("@u", <<>>, L(<<DMap1("$and", L(<<S(r), S("ret")>>))>>))

Positions(r) ==
    { <<"item",      L(<<S(r)>>)>>,
      <<"operand",   L(<<DMap1("push", L(<<S(r)>>))>>)>>,
      <<"value",     L(<<DMap1("mov", L(<<DMap1("$deref", DMap(<<DPair("main_reg", S(r))>>))>>))>>)>>,
      <<"key_body",  L(<<DMap1(r, L(<<S("%rax")>>))>>)>>,
      <<"key_times", L(<<DMap1(r, DMap1("times", DInt(2)))>>)>>,
      \* the same after an item that is itself a mapping with operands (not the first mapping of the rule)
      <<"key_times_second", L(<<DMap1("push", L(<<S("%rbx")>>)), DMap1(r, DMap1("times", DInt(2)))>>)>>,
      <<"in_or",     L(<<DMap1("$or", L(<<S(r), S("ret")>>))>>)>>,
      <<"in_not",    L(<<DMap1("$not", L(<<S(r)>>)), S("ret")>>)>>,
      <<"second",    L(<<S("ret"), S(r)>>)>> }

\* definitions in play: always @other (so that macro definitions ARE in play), plus @a and @s
Defs == <<D_other, D_a, D_s>>
\* inside a longer name only a defined string macro is a reference (C19 does not list this position for
\* undefined names: an '@' inside a name is not recognisably a reference)
InName == { [pos |-> "in_name", ref |-> "@s", pattern |-> L(<<S("l@sq")>>), defs |-> Defs] }
Direct == UNION { { [pos |-> pp[1], ref |-> r, pattern |-> pp[2], defs |-> Defs] : pp \in Positions(r) } : r \in Refs }
\* a reference inside a macro body; the user @u listed before / after the macro it uses
InBody == { [pos |-> "body_user_first", ref |-> r, pattern |-> L(<<S("@u")>>), defs |-> <<User(r)>> \o Defs] : r \in Refs }
     \cup { [pos |-> "body_user_last", ref |-> r, pattern |-> L(<<S("@u")>>), defs |-> Defs \o <<User(r)>>] : r \in Refs }
\* a definition whose own name does not start with @
BadName == { [pos |-> "bad_macro_name", ref |-> "noat", pattern |-> L(<<S("push")>>),
              defs |-> <<MacroDef("noat", <<>>, S("push"))>> \o Defs],
             [pos |-> "bad_macro_name_used", ref |-> "noat", pattern |-> L(<<S("noat")>>),
              defs |-> Defs \o <<MacroDef("noat", <<>>, L(<<S("push")>>))>>] }
\* a string macro whose whole body is itself a reference (@f -> r), used in every position; the macro it forwards to is
\* listed after it (expanded by a later pass), before it (no pass left: must be reported), or does not exist
Fwd(r) == MacroDef("@f", <<>>, S(r))
Forward == UNION { { [pos |-> "forward_" \o pp[1], ref |-> r, pattern |-> pp[2], defs |-> d]
                     \* (a string macro as the key of an operand list is not a supported use form: the expansion itself fails)
                     : pp \in { q \in Positions("@f") : q[1] # "key_body" }, d \in { <<Fwd(r)>> \o Defs, Defs \o <<Fwd(r)>> } } : r \in {"@a", "@s", "@x"} }
\* a reference handed over as the ARGUMENT VALUE of a parameterised macro -- which may be the only definition in play
D_p == MacroDef("@p", <<"a1">>, L(<<DMap1("push", L(<<S("a1")>>))>>))
ArgValue == { [pos |-> "arg_value", ref |-> r, pattern |-> L(<<DMap(<<DPair("@p", DNull), DPair("a1", S(r))>>)>>), defs |-> d]
              : r \in {"@x", "@s", "@p"}, d \in { <<D_p>>, <<D_p>> \o Defs, Defs \o <<D_p>> } }
Base == Direct \cup InName \cup InBody \cup BadName \cup Forward \cup ArgValue
\* definitions in the rule file, or all of them in one extra macro file
Docs == { [pos |-> b.pos, ref |-> b.ref, pattern |-> b.pattern,
           macros |-> IF inFile THEN b.defs ELSE <<>>, xfiles |-> IF inFile THEN <<>> ELSE <<b.defs>>,
           inlined |-> InlineRef(b.pattern, b.defs),
           must_fail |-> MustFail(b.pattern, b.defs),
           names |-> SetToSeq(Unresolved(b.pattern, b.defs) \cup BadMacroNames(b.defs)),
           tag |-> "", model_outcome |-> MP!RunModel(b.pattern, b.defs).outcome]
          : b \in Base, inFile \in BOOLEAN }
Universe == [docs |-> SetToSeq(Docs)]
=============================================================================
