SPECIFICATION Spec
CONSTANTS
  MaxLen = 1
  Guard = FALSE
INVARIANT C10_Unambiguous
CHECK_DEADLOCK FALSE
