------------------------------- MODULE MC_Jasm -------------------------------
(***************************************************************************)
(* The composed pipeline (Jasm) over a small universe of rule documents    *)
(* with and without macros (supported uses, every reference position of    *)
(* C19, undefined references) and printed listings: invariant EndToEnd.    *)
(***************************************************************************)
EXTENDS Jasm
U13 == INSTANCE U_C13 WITH MaxUses <- 1
U19 == INSTANCE U_C19
Rule(ms, p, mf, of) == [cfgmfm |-> mf, cfgofm |-> of, macros |-> ms, pattern |-> p]
Docs == { Rule(U13!AllMacros, p, "-", "-") : p \in U13!Patterns }
   \cup { Rule(b.defs, b.pattern, "-", "-") : b \in U19!Base }
   \cup { Rule(<<>>, DList(<<DStr("push"), DStr("call")>>), mf, "-") : mf \in {"-", "T"} }
   \cup { Rule(<<>>, DList(<<DMap1("mov", DList(<<DStr("rax")>>))>>), "-", of) : of \in {"-", "T"} }
   \cup { Rule(<<>>, DList(<<DStr("@x")>>), "-", "-") }        \* no definitions in play: F12b, outside EndToEnd's second clause
Ln(a, m, ops) == InsnLine(a, <<"90">>, m, ops)
Body == { Ln("401000", "push", <<Reg("%rax")>>), Ln("401001", "call", <<Target("401020")>>), Ln("401006", "mov", <<Reg("%rax"), Reg("%raxx")>>),
          Ln("401009", "movq", <<Reg("%rax"), Reg("%rbx")>>), Ln("40100c", "leave", <<>>), Ln("40100d", "ret", <<>>),
          Ln("40100e", "pushq", <<Imm("0x1")>>), Ln("401010", "mov", <<Mem("", "%rax", "", ""), Reg("%rbx")>>) }
Lsts == { <<LabelLine("0000000000401000", "f")>> \o s : s \in UNION { [1..n -> Body] : n \in 0..2 } }

(***************************************************************************)
(* A second universe: macro-free rule documents for the other DSL features *)
(* (captures with back-references, register-family captures, `times',      *)
(* $not, any-order, $or, $deref), written by Unparse, over listings with   *)
(* registers at two widths and memory operands -- so that the compiled     *)
(* regexes with groups, back-references, look-aheads and bounded           *)
(* repetition go through the scan of the composed model.                   *)
(***************************************************************************)
Spb == [times |-> "body", upper |-> FALSE, ints |-> FALSE]
FI(m) == PIns(m, <<>>)
FDeref(fs) == Node("deref", "", fs, 1, 1)
FField(n, v) == Node("dfield", n, <<Node("flit", v, <<>>, 1, 1)>>, 1, 1)
FeaturePatterns ==
    { PAnd(<<PIns("push", <<OCap("r")>>), PIns("pop", <<OCap("r")>>)>>),
      PAnd(<<PICap("i"), PICap("i")>>),
      PAnd(<<WithTimes(FI("push"), 1, 2), FI("call")>>),
      PAnd(<<WithTimes(PAnd(<<FI("push"), FI("pop")>>), 2, 2)>>),
      PAnd(<<PNot(FI("push")), FI("ret")>>),
      PAnd(<<PPerm(<<FI("push"), FI("call")>>)>>),
      PAnd(<<POr(<<FI("call"), PAnd(<<FI("push"), FI("pop")>>)>>), FI("ret")>>),
      PAnd(<<PIns("mov", <<FDeref(<<FField("main_reg", "rax")>>)>>)>>),
      PAnd(<<PIns("mov", <<FDeref(<<FField("main_reg", "rax"), FField("constant_offset", "0x8")>>), OLit("rbx")>>)>>),
      PAnd(<<PIns("mov", <<ORCap("genreg-1", "genreg", "64"), ORCap("genreg-2", "genreg", "64")>>),
             PIns("mov", <<ORCap("genreg-1", "genreg", "32"), ORCap("genreg-2", "genreg", "32")>>)>>),
      PAnd(<<PIns("push", <<OCap("r")>>), PIns("mov", <<ONot(OCap("r")), OCap("r")>>)>>) }
Docs2 == { Rule(<<>>, Unparse(P, Spb), "-", "-") : P \in FeaturePatterns }
Body2 == { Ln("401000", "push", <<Reg("%rax")>>), Ln("401001", "push", <<Reg("%rbx")>>), Ln("401002", "pop", <<Reg("%rax")>>),
           Ln("401003", "pop", <<Reg("%rbx")>>), Ln("401004", "call", <<Target("401020")>>), Ln("401009", "ret", <<>>),
           Ln("40100a", "mov", <<Mem("", "%rax", "", ""), Reg("%rbx")>>), Ln("40100d", "mov", <<Mem("0x8", "%rax", "", ""), Reg("%rbx")>>),
           Ln("401011", "mov", <<Reg("%rax"), Reg("%rbx")>>), Ln("401014", "mov", <<Reg("%eax"), Reg("%ebx")>>),
           Ln("401016", "mov", <<Reg("%ebx"), Reg("%eax")>>) }
Lsts2 == { <<LabelLine("0000000000401000", "f")>> \o s : s \in UNION { [1..n -> Body2] : n \in 0..2 } }
       \cup { <<LabelLine("0000000000401000", "f")>> \o <<a, b, c, d>> : a, c \in { l \in Body2 : l.mn = "push" }, b, d \in { l \in Body2 : l.mn = "pop" } }

MCPairs == (Docs \X Lsts) \cup (Docs2 \X Lsts2)
MCInit == \E pr \in MCPairs : JInitFor(pr[1], pr[2])
MCSpec == MCInit /\ [][JNext]_allvars
=============================================================================
