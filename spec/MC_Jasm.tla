------------------------------- MODULE MC_Jasm -------------------------------
(***************************************************************************)
(* The composed pipeline (Jasm) over a small universe of rule documents    *)
(* with and without macros (supported uses, every reference position of    *)
(* C19, undefined references) and printed listings: invariant EndToEnd.    *)
(***************************************************************************)
EXTENDS Jasm
U13 == INSTANCE U_C13 WITH MaxUses <- 1
U19 == INSTANCE U_C19
Rule(ms, p, mf, of) == [cfgmfm |-> mf, cfgofm |-> of, macros |-> ms, pattern |-> p]
Docs == { Rule(U13!AllMacros, p, "-", "-") : p \in U13!Patterns }
   \cup { Rule(b.defs, b.pattern, "-", "-") : b \in U19!Base }
   \cup { Rule(<<>>, DList(<<DStr("push"), DStr("call")>>), mf, "-") : mf \in {"-", "T"} }
   \cup { Rule(<<>>, DList(<<DMap1("mov", DList(<<DStr("rax")>>))>>), "-", of) : of \in {"-", "T"} }
   \cup { Rule(<<>>, DList(<<DStr("@x")>>), "-", "-") }        \* no definitions in play: F12b, outside EndToEnd's second clause
Ln(a, m, ops) == InsnLine(a, <<"90">>, m, ops)
Body == { Ln("401000", "push", <<Reg("%rax")>>), Ln("401001", "call", <<Target("401020")>>), Ln("401006", "mov", <<Reg("%rax"), Reg("%raxx")>>),
          Ln("401009", "movq", <<Reg("%rax"), Reg("%rbx")>>), Ln("40100c", "leave", <<>>), Ln("40100d", "ret", <<>>),
          Ln("40100e", "pushq", <<Imm("0x1")>>), Ln("401010", "mov", <<Mem("", "%rax", "", ""), Reg("%rbx")>>) }
Lsts == { <<LabelLine("0000000000401000", "f")>> \o s : s \in UNION { [1..n -> Body] : n \in 0..2 } }
=============================================================================
