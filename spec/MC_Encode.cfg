SPECIFICATION Spec
CONSTANTS
  MaxLen = 1
  Guard = TRUE
INVARIANT C10_Unambiguous
CHECK_DEADLOCK FALSE
