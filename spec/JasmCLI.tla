------------------------------- MODULE JasmCLI -------------------------------
(***************************************************************************)
(* The `jasm' command (C20): argument parsing, the operation it performs   *)
(* through the library, what it logs and how it exits.                     *)
(*                                                                         *)
(* An invocation is abstracted to the options C20 names:                   *)
(*   pat   "T"/"F"   -p given                                              *)
(*   src   subset of {"s", "b"}   which of -s / -b are given               *)
(*   all   "T"/"F"   --all-matches                                         *)
(*   addr  "T"/"F"   --return_only_address                                 *)
(*   macros  sequence of macro file ids (--macros f1 f2 ...)               *)
(*   dbg   "T"/"F"   --debug (more log output; the result lines and the    *)
(*                   exit status must not depend on it)                    *)
(*   pair  id of the (rule, input) pair                                    *)
(* The library result for the same options is a parameter (api): C20 says  *)
(* the command reports exactly that.                                       *)
(***************************************************************************)
EXTENDS Naturals, Sequences, FiniteSets

UsageError(inv) == inv.pat = "F" \/ Cardinality(inv.src) # 1

\* what the command must log, given the library's list result for the same options
RECURSIVE AddrLines(_)
AddrLines(list) == IF list = <<>> THEN <<>> ELSE <<"Matched address: " \o Head(list)>> \o AddrLines(Tail(list))
ResultLine(found) == IF found THEN "RESULT: Pattern found" ELSE "RESULT: Pattern not found"
\* api = [outcome |-> "ok"|"error", list |-> seq of strings, found |-> BOOLEAN]
ExpectedLines(api) == AddrLines(api.list) \o <<ResultLine(api.found)>>

Conforms(inv, api, cli) ==      \* cli = [exit |-> Nat, lines |-> seq of logged messages]
    IF UsageError(inv) THEN cli.exit # 0 /\ cli.lines = <<>>
    ELSE IF api.outcome # "ok" THEN cli.exit # 0 /\ \A n \in DOMAIN cli.lines : cli.lines[n] # ResultLine(FALSE)
    ELSE cli.exit = 0 /\ cli.lines = ExpectedLines(api)

\* the library agrees with itself (C12) -- required of the oracle before it is used
OracleConsistent(api) == api.outcome = "ok" => (api.found <=> api.list # <<>>)

\* ---- universe of invocations -------------------------------------------------
Srcs == {{}, {"s"}, {"b"}, {"s", "b"}}
MacroLists == {<<>>, <<"m1">>, <<"m1", "m2">>, <<"m2", "m1">>}
Invocations(pairs) ==
    { [pat |-> p, src |-> s, all |-> a, addr |-> d, macros |-> m, pair |-> pr, dbg |-> g]
      : p \in {"T", "F"}, s \in Srcs, a \in {"T", "F"}, d \in {"T", "F"}, m \in MacroLists, pr \in pairs, g \in {"T", "F"} }
=============================================================================
