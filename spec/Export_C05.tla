----------------------------- MODULE Export_C05 -----------------------------
EXTENDS U_C05, Json, IOUtils
ASSUME JsonSerialize(IOEnv.JASM_OUT, [i |-> Universe, o |-> UniverseO, r |-> UniverseR, d |-> UniverseD, g |-> UniverseG])
VARIABLE x
Init == x = 0
Next == x' = x
=============================================================================
