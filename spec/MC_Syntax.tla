------------------------------ MODULE MC_Syntax ------------------------------
(***************************************************************************)
(* Parse(Unparse(p, sp)) = p for every pattern of the property universes   *)
(* and every spelling; malformed shapes named by C17 map to an error node. *)
(***************************************************************************)
EXTENDS JasmSyntax, SequencesExt
U1 == INSTANCE U_C01 WITH MaxItems <- 2, MaxListing <- 0, PMn <- {"a", "ab"}, POps <- {<<>>, <<"x">>, <<"x", "y">>}, LMn <- {"a"}, LOps <- {<<>>}
U2 == INSTANCE U_C02 WITH MaxT <- 3, MaxGroupT <- 2, MaxBody <- 0
U3 == INSTANCE U_C03 WITH Depth2 <- "ab", MaxListing <- 0
U4 == INSTANCE U_C04 WITH MaxListing <- 0
U5 == INSTANCE U_C05 WITH MaxListing <- 2, RegWidths <- Widths
U6 == INSTANCE U_C06 WITH PBase <- {"rax", "%r8"}, PIndex <- {<<>>, <<"rbx", "4">>}, PDisp <- {"", "0x8"}, OBase <- {"%rax"}, OIndex <- {<<"", "">>}, ODisp <- {""}
U7 == INSTANCE U_C07 WITH MaxListing <- 0
U11 == INSTANCE U_C11 WITH MaxListing <- 0
All == U1!Patterns \cup U2!Patterns \cup U3!PatternsI \cup U3!PatternsO \cup U3!PatternsD \cup U4!PatternsI \cup U4!PatternsO
       \cup U5!PatternsI \cup U5!PatternsO \cup U5!PatternsR \cup U6!Patterns \cup U7!PatternsP \cup U7!PatternsA \cup U11!Patterns
Bad == { DList(<<>>), DStr("push"), DList(<<DMap1("$and", DList(<<>>))>>), DList(<<DMap1("$not", DList(<<DStr("a"), DStr("b")>>))>>),
         DList(<<DMap1("$not", DList(<<>>))>>), DList(<<DMap1("call", DMap1("times", DInt(-1)))>>),
         DList(<<DMap1("call", DMap1("times", DMap(<<DPair("min", DInt(3)), DPair("max", DInt(1))>>)))>>),
         DList(<<DMap1("push", DList(<<DMap1("$deref", DMap(<<DPair("constant_offset", DStr("0x8"))>>))>>))>>),
         DList(<<DMap1("push", DList(<<DMap1("$or", DList(<<>>))>>))>>) }
VARIABLES p, res
Init == p \in All \cup Bad /\ res = "?"
Next == res = "?" /\ UNCHANGED p /\
        res' = (IF p \in Bad THEN (IF HasErr(Parse(p)) THEN "ok" ELSE "bad") ELSE IF RoundTrip(p) THEN "ok" ELSE "bad")
Spec == Init /\ [][Next]_<<p, res>>
SyntaxRoundTrip == res # "bad"
=============================================================================
