------------------------------- MODULE U_C04 -------------------------------
(***************************************************************************)
(* Universe of C04: $not in leading, inner, trailing, repeated and operand *)
(* position; arguments that are a single item, an item with operands, a    *)
(* two-instruction $and, an $or.  The operand-level universe keeps away    *)
(* from the corner the statement leaves open (an operand-level $not facing *)
(* the empty operand field of an operand-less instruction): the item m is  *)
(* only ever matched against instructions that have operands.              *)
(***************************************************************************)
EXTENDS JasmUniverse
CONSTANTS MaxListing

I(m) == PIns(m, <<>>)
Args == { I("a"), PIns("a", <<OLit("x")>>), PAnd(<<I("a"), I("b")>>), POr(<<I("a"), I("b")>>),
          PNot(I("a")),
          \* an argument that carries its own repetition: X = (a|b){2}, (a|b){0,1} (matches everywhere), a{2}
          WithTimes(POr(<<I("a"), I("b")>>), 2, 2), WithTimes(POr(<<I("a"), I("b")>>), 0, 1), WithTimes(I("a"), 2, 2),
          \* double negation: $not [$not [X]] consumes ONE instruction at which X matches, whatever X spans
          PNot(WithTimes(I("a"), 2, 2)), PNot(WithTimes(I("a"), 0, 1)), PNot(POr(<<PAnd(<<I("a"), I("b")>>), I("p")>>)) }
N(x) == PNot(x)
PatternsI == UNION { { PAnd(<<N(x), I("q")>>), PAnd(<<I("p"), N(x), I("q")>>), PAnd(<<I("p"), N(x)>>),
                       PAnd(<<N(x)>>), PAnd(<<I("p"), WithTimes(N(x), 2, 2), I("q")>>),
                       PAnd(<<WithTimes(N(x), 1, 2), I("q")>>), PAnd(<<N(x), N(x)>>),
                       PAnd(<<N(x), N(I("q"))>>), PAnd(<<POr(<<N(x), I("p")>>), I("q")>>) } : x \in Args }
             \* another item with exactly the bounds of the $not argument (bounds are values, not shared objects)
             \cup { PAnd(<<WithTimes(I("p"), 1, 2), N(WithTimes(I("a"), 1, 2)), I("q")>>),
                    PAnd(<<N(WithTimes(I("a"), 1, 2)), WithTimes(I("p"), 1, 2), I("q")>>) }
BodiesI == { <<"a", <<>> >>, <<"a", <<"x">> >>, <<"b", <<>> >>, <<"p", <<>> >>, <<"q", <<>> >> }
ListingsI == ListingsOver(BodiesI, 0, MaxListing)

X == OLit("x")  Y == OLit("y")  Z == OLit("z")
OArgs == { X, OOr(<<X, Y>>), OLit("xy"), WithTimes(OOr(<<X, Y>>), 2, 2), ONot(WithTimes(OOr(<<X, Y>>), 2, 2)), ONot(X) }
PatternsO == UNION { { PAnd(<<PIns("m", <<ONot(g)>>)>>), PAnd(<<PIns("m", <<ONot(g), Y>>)>>),
                       PAnd(<<PIns("m", <<Z, ONot(g)>>)>>), PAnd(<<PIns("m", <<ONot(g)>>), I("q")>>),
                       PAnd(<<PIns("m", <<ONot(g), ONot(g)>>)>>),
                       PAnd(<<PIns("m", <<WithTimes(ONot(g), 2, 2), Z>>)>>),
                       \* a range of negated operands gives operands back to the operand that follows
                       PAnd(<<PIns("m", <<WithTimes(ONot(g), 1, 2), Z>>)>>),
                       PAnd(<<PIns("m", <<WithTimes(ONot(g), 0, 2), Y>>)>>),
                       PAnd(<<PIns("m", <<OOr(<<ONot(g), Z>>), Y>>)>>) } : g \in OArgs }
OpSeqs == SeqsBetween({"x", "y", "z", "xy"}, 1, 3)
ListingsO == { WithAddrs(<< <<"m", o>> >>) : o \in OpSeqs }
        \cup { WithAddrs(<< <<"m", o>>, <<"q", <<>> >> >>) : o \in OpSeqs }
        \cup { WithAddrs(<< <<"m", o>>, <<"m", <<"y">> >> >>) : o \in SeqsBetween({"x", "y", "z"}, 1, 2) }

\* ---- $not under the matching flags: instructions whose mnemonic merely CONTAINS the excluded name (ab, ba for a)
\* are excluded by `$not: [a]' under substring matching and are NOT under mnemonics-full-match
ArgsF == { I("a"), POr(<<I("a"), I("b")>>), PIns("a", <<OLit("x")>>), PAnd(<<I("a"), I("b")>>) }
PatternsF == UNION { { PAnd(<<N(x), I("q")>>), PAnd(<<I("p"), N(x), I("q")>>), PAnd(<<I("p"), N(x)>>), PAnd(<<N(x)>>),
                       PAnd(<<I("p"), WithTimes(N(x), 2, 2), I("q")>>) } : x \in ArgsF }
BodiesF == { <<"a", <<>> >>, <<"ab", <<>> >>, <<"ba", <<>> >>, <<"a", <<"xy">> >>, <<"b", <<>> >>, <<"p", <<>> >>, <<"q", <<>> >> }
ListingsF == ListingsOver(BodiesF, 0, 3)
UniverseF == [patterns |-> SetToSeq(PatternsF), listings |-> SetToSeq(ListingsF)]
\* ---- capture names first bound inside the argument of a $not (JasmPattern!SoundScope: judged one-sidedly) ----
R == OCap("r")
NotArgs == { PIns("a", <<R, R>>), PIns("a", <<R>>), PAnd(<<PIns("a", <<R>>), PIns("b", <<R>>)>>) }
PatternsN == UNION { { PAnd(<<N(x), I("q")>>), PAnd(<<N(x), PIns("b", <<R>>)>>), PAnd(<<N(x), PIns("b", <<R>>), PIns("b", <<R>>)>>),
                       PAnd(<<I("p"), N(x), PIns("b", <<OLit("x"), R>>)>>), PAnd(<<PIns("b", <<R>>), N(x), I("q")>>) } : x \in NotArgs }
             \cup { PAnd(<<PIns("m", <<ONot(R), R>>)>>), PAnd(<<PIns("m", <<ONot(R)>>), PIns("b", <<R>>)>>) }
BodiesN == { <<"a", <<"x", "x">> >>, <<"a", <<"x", "y">> >>, <<"b", <<"x">> >>, <<"b", <<"y">> >>, <<"b", <<"x", "x">> >>,
             <<"m", <<"x", "x">> >>, <<"p", <<>> >>, <<"q", <<>> >> }
ListingsN == ListingsOver(BodiesN, 0, 3)
UniverseN == [patterns |-> SetToSeq(PatternsN), listings |-> SetToSeq(ListingsN)]
Universe == [patterns |-> SetToSeq(PatternsI), listings |-> SetToSeq(ListingsI)]
UniverseO == [patterns |-> SetToSeq(PatternsO), listings |-> SetToSeq(ListingsO)]
=============================================================================
