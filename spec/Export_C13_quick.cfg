INIT Init
NEXT Next
CONSTANT MaxUses = 2
