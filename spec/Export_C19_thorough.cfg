INIT Init
NEXT Next
