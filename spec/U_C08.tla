------------------------------- MODULE U_C08 -------------------------------
(***************************************************************************)
(* Grammar universe of C08 / C09 / C10: abstract objdump listings over     *)
(* every line kind (file-format header, blank, section header, symbol      *)
(* label, `...' elision, byte-continuation line, instruction lines of 1 to *)
(* 15 bytes, with and without operands, symbol annotations and comments,   *)
(* (bad) bytes), and the operand forms of C09 over all general purpose     *)
(* registers and widths.                                                   *)
(***************************************************************************)
EXTENDS JasmObjdump, SequencesExt, FiniteSetsExt
CONSTANTS MaxBlocks, MaxOps

SeqsBetween(S, lo, hi) == UNION { [1..n -> S] : n \in lo..hi }
B7 == <<"48", "c7", "84", "24", "a0", "00", "00">>
\* ---- instruction lines ---------------------------------------------------
I1 == InsnLine("401000", <<"55">>, "push", <<Reg("%rbp")>>)
I2 == InsnLine("401001", <<"48", "89", "e5">>, "mov", <<Reg("%rsp"), Reg("%rbp")>>)
I3 == InsnLine("401004", <<"c3">>, "ret", <<>>)
I4 == [InsnLine("401005", <<"e8", "16", "00", "00", "00">>, "call", <<Target("401020")>>) EXCEPT !.sym = "foo+0x10"]
I5 == [InsnLine("40100a", <<"48", "8b", "05", "f7", "2f", "00", "00">>, "mov", <<Mem("0x2ff7", "%rip", "", ""), Reg("%rax")>>)
          EXCEPT !.comment = "404008 <x>"]
I6 == InsnLine("401011", B7, "movq", <<Imm("0x0"), Mem("0xa0", "%rsp", "", "")>>)   \* 12 bytes: continuation line follows
C6 == ContLine("401018", <<"00", "00", "00", "00", "00">>)
I6b == InsnLine("40101d", B7, "movq", <<Imm("0x1"), Mem("0xa0", "%rsp", "", "")>>)  \* same first 7 bytes as I6, other immediate
C6b == ContLine("401024", <<"00", "01", "00", "00", "00">>)
I1b == InsnLine("401000", <<"5d">>, "pop", <<Reg("%rbp")>>)                     \* the address of I1 again (another section of a .o)
I16 == InsnLine("401030", B7, "movq", <<Imm("0xfffffffffffffffe"), Mem("-0x12345678", "%r10", "%r11", "8")>>)
I17 == InsnLine("40103c", B7, "imul", <<Imm("0x7fffffff"), Mem("-0x12345678", "%r10", "%r11", "8"), Reg("%r12")>>)
I18 == [InsnLine("ffffffff81000000", <<"55">>, "push", <<Reg("%rbp")>>) EXCEPT !.indent = 0]   \* kernel-range address: 16 digits, no padding
I19 == [InsnLine("7f0000001000", <<"c3">>, "ret", <<>>) EXCEPT !.indent = 4]
I7 == InsnLine("40101d", <<"06">>, "(bad)", <<>>)
I8 == [InsnLine("40101e", <<"c3">>, "ret", <<>>) EXCEPT !.tail = 4]
I9 == [InsnLine("8", <<"0f", "1f", "44", "00", "00">>, "nopl", <<Mem("0x0", "%rax", "%rax", "1")>>) EXCEPT !.indent = 3]
I10 == InsnLine("7ffff7dd0000", <<"75", "f0">>, "jne", <<Target("7ffff7dcfff2")>>)
I11 == InsnLine("0", <<"8d", "04", "85", "00", "00", "00", "00">>, "lea", <<Mem("0x0", "", "%rax", "4"), Reg("%eax")>>)
I12 == InsnLine("12", <<"ff", "e0">>, "jmp", <<Raw("*%rax")>>)
I13 == InsnLine("14", <<"90">>, "nop", <<>>)
I14 == InsnLine("401015", <<"66">>, "data16", <<>>)      \* a lone prefix byte before a symbol / at the end of a section
Blocks == { <<I1>>, <<I2>>, <<I3>>, <<I4>>, <<I5>>, <<I6, C6>>, <<I7>>, <<I8>>, <<I9>>, <<I10>>, <<I11>>, <<I12>>, <<I13>>, <<I14>>, <<I6b, C6b>>, <<I1b>>, <<I18>>, <<I19>>, <<I16, C6>>, <<I17, C6>>,
            <<BlankLine>>, <<EllipsisLine>>,
            <<BlankLine, HeaderLine("a.out:     file format elf64-x86-64"), BlankLine, BlankLine>>,
            <<SectionLine(".text"), BlankLine, LabelLine("0000000000401000", "main")>>,
            <<LabelLine("0000000000401020", "foo")>>,
            <<BlankLine, SectionLine(".plt.got"), BlankLine>> }
RECURSIVE Flat(_)
Flat(ss) == IF ss = <<>> THEN <<>> ELSE Head(ss) \o Flat(Tail(ss))
\* the same direct call (mnemonic and target) at three different addresses, and a jump to that target
I4at(a) == [I4 EXCEPT !.addr = a]
SameTarget == { <<I4at("401005"), I1, I4at("40100b"), I4at("401010"), [I4at("401015") EXCEPT !.mn = "jmp", !.bytes = <<"e9", "06", "00", "00", "00">>], I3>> }
Listings == { Flat(s) : s \in SeqsBetween(Blocks, 0, MaxBlocks) } \cup SameTarget

\* ---- operand forms of C09 --------------------------------------------------
Regs64 == {"%rax", "%rbx", "%rcx", "%rdx", "%rsi", "%rdi", "%rbp", "%rsp", "%r8", "%r9", "%r10", "%r11", "%r12", "%r13", "%r14", "%r15"}
Regs32 == {"%eax", "%ebx", "%ecx", "%edx", "%esi", "%edi", "%ebp", "%esp", "%r8d", "%r9d", "%r10d", "%r11d", "%r12d", "%r13d", "%r14d", "%r15d"}
Regs16 == {"%ax", "%bx", "%cx", "%dx", "%si", "%di", "%bp", "%sp", "%r8w", "%r9w", "%r10w", "%r11w", "%r12w", "%r13w", "%r14w", "%r15w"}
Regs8  == {"%al", "%bl", "%cl", "%dl", "%ah", "%bh", "%ch", "%dh", "%sil", "%dil", "%bpl", "%spl", "%r8b", "%r9b", "%r10b", "%r11b", "%r12b", "%r13b", "%r14b", "%r15b"}
AllRegs == Regs64 \cup Regs32 \cup Regs16 \cup Regs8
Disps == {"0x8", "-0x8", "0x0", "0x7fffffff", "-0x80000000", "0x10"}
\* every register once in every role
RegForms == { Reg(r) : r \in AllRegs }
MemForms1 == { Mem("", a, "", "") : a \in Regs64 \cup Regs32 } \cup { Mem(k, a, "", "") : k \in Disps, a \in {"%rax", "%r13", "%rip", "%ebp"} }
MemForms3 == { Mem(k, a, b, c) : k \in {"", "0x8", "-0x8"}, a \in {"%rax", "%r12"}, b \in {"%rbx", "%r15"}, c \in {"1", "2", "4", "8"} }
        \cup { Mem(k, "", b, c) : k \in {"0x0", "0x10"}, b \in {"%rcx", "%r9"}, c \in {"1", "4", "8"} }
        \cup { Mem("0x4", a, a, "2") : a \in Regs64 \ {"%rsp"} }
ImmForms == { Imm(v) : v \in {"0x0", "0x1", "0xffffffffffffffff", "-0x1", "0x10"} }
TgtForms == { Target(h) : h \in {"401020", "0", "ffffffff81000000", "dead", "add"} }
Forms == RegForms \cup MemForms1 \cup MemForms3 \cup ImmForms \cup TgtForms
\* 0-3 operands in any mix: one of every form alone, and every mix of a representative set
Mix == { Reg("%rax"), Reg("%r8d"), Mem("", "%rax", "", ""), Mem("0x8", "%rax", "", ""), Mem("-0x8", "%rax", "%rbx", "4"),
         Mem("", "%rax", "%rbx", "1"), Mem("0x0", "", "%rcx", "8"), Imm("0x10"), Target("401020") }
OpLists == { <<f>> : f \in Forms } \cup SeqsBetween(Mix, 0, MaxOps)
OpListings == { <<InsnLine("401000", <<"90">>, "op", o)>> : o \in OpLists }
        \* two long instructions whose raw-byte columns agree (objdump prints only the first 7 bytes on the line)
        \cup { <<InsnLine("401000", B7, "op", o1), ContLine("401007", <<"00", "01">>), InsnLine("401009", B7, "op", o2), ContLine("401010", <<"00", "02">>)>>
               : o1 \in { <<f, Mem("0x108", "%rsp", "", "")>> : f \in {Imm("0x1"), Imm("0x2")} },
                 o2 \in { <<f, Mem("0x108", "%rsp", "", "")>> : f \in {Imm("0x1"), Imm("0x2")} } \cup { <<Reg("%rax"), Mem("0x110", "%rsp", "", "")>> } }

\* operand-less instructions whose mnemonic is spelled with the letters a-f only (32-bit code: daa, aaa; x87 forms):
\* the text after the last TAB of such a line looks like a column of raw bytes, and is an instruction all the same
HexMnemonics == {"daa", "aaa", "fadd", "dec"}
HexListings == { <<I1, InsnLine("401001", <<"27">>, m, <<>>), I3>> : m \in HexMnemonics }
        \cup { <<InsnLine("401001", <<"27">>, m, <<>>)>> : m \in HexMnemonics }
        \cup { <<I6, C6, InsnLine("40101d", <<"37">>, m, <<>>), C6>> : m \in HexMnemonics }
\* a block of ordinary instruction lines, repeated K times by the harness for listings of 10^4 .. 10^6 lines
ScaleBlock == <<I1, I2, I4, I5, I3, I13, I11>>
Universe == [listings |-> SetToSeq(Listings \cup OpListings \cup HexListings)]
Export == [listings |-> [n \in DOMAIN Universe.listings |->
             [listing |-> Universe.listings[n], lines |-> ListingLines(Universe.listings[n])]],
           scale_block |-> ListingLines(ScaleBlock)]
=============================================================================
