---------------------------- MODULE Trace_Match ----------------------------
(***************************************************************************)
(* Trace validation of compile-and-match operations.                       *)
(*                                                                         *)
(* Input (JSON, env JASM_CASES): abstract patterns, abstract listings and, *)
(* per case, what the real code returned at its public boundary in the     *)
(* stream mode and in all eight combinations of return mode, search mode   *)
(* and address-only flag.  TLC decides, per case, whether the observation  *)
(* is a behaviour of the specification: Encode (JasmText), MI (JasmPattern)*)
(* and the scan (JasmScan).  The verdict of every case is total and names  *)
(* the first failing clause; the reachable states (-dump) are the verdict  *)
(* file.                                                                   *)
(*                                                                         *)
(* A reported match text is shipped as [s, e, raw]: the harness projects a *)
(* text that is string-equal to the records s..e-1 of the observed stream  *)
(* to the pair (s, e) and ships anything else verbatim in raw (s = 0).     *)
(***************************************************************************)
EXTENDS JasmKnown, JasmObserve, Json, IOUtils
S == INSTANCE JasmScan WITH n <- 0, spans <- {}, firstOnly <- FALSE,
                            pos <- 0, reported <- <<>>, done <- FALSE

Data == JsonDeserialize(IOEnv.JASM_CASES)
Pats == Data.patterns
Lsts == Data.listings
Cases == Data.cases

VARIABLES idx, verdict
vars == <<idx, verdict>>

Pairs(rep) == [a \in DOMAIN rep |-> <<rep[a].s, rep[a].e>>]
Aligned(rep) == \A a \in DOMAIN rep : rep[a].s >= 1 /\ rep[a].raw = ""

\* scope of the pattern-semantics properties (C01-C07, C11): the pattern cannot match the empty
\* sequence, capture definitions lie on the exactly-once spine, and the corner the statements leave open
\* (an operand-level $not facing the empty operand field of an operand-less instruction) does not arise
OnotCorner(P, L) ==
    \E it \in InsNodes(P) :
        /\ \E k \in DOMAIN it.kids : HasKind(it.kids[k], {"onot"})
        /\ \E n \in DOMAIN L : L[n].ops = <<>> /\ NameHolds(it.name, L[n].mn, FALSE)
InScope(P, L) == ~Nullable(P) /\ (CapsOnSpine(P) \/ SoundScope(P)) /\ ~OnotCorner(P, L)

\* the first failing clause, or "ok:F" / "ok:N" (found / not found)
Check(c) ==
    LET P  == Pats[c.p]
        L0 == Lsts[c.l]
        n  == Len(L0)
        ranged == c.range # <<>>
    IN
    \* randomly generated cases (code -> spec direction) are checked to be inside the scope of the
    \* properties BY TLC; what is outside is skipped, never judged
    IF c.rand /\ ~InScope(P, L0) THEN "skip:OutOfScope"
    ELSE IF c.outcome # "ok" THEN "rej:NoError"
    ELSE IF ~ranged /\ ~c.nostream /\ ~c.obs /\ c.stream # Encode(L0) THEN "rej:C10_StreamIsEncode"
    ELSE IF (ranged \/ c.obs) /\ ~StreamWellFormed(c.stream) THEN "rej:C10_WellFormed"
    \* c.obs: the operand texts are taken from the observed stream (forms for which C09 fixes no normal form);
    \* number, addresses and mnemonics must still be the listing's
    ELSE IF c.obs /\ (Len(Decode(c.stream)) # n
                      \/ \E k \in 1..n : Decode(c.stream)[k].addr # L0[k].addr \/ Decode(c.stream)[k].mn # L0[k].mn
                                           \/ Len(Decode(c.stream)[k].ops) # Len(L0[k].ops))
         THEN "rej:C08_AddrMnemonic"
    ELSE IF ranged /\ ~AllowedTagging(L0, Decode(c.stream), c.range[1], c.range[2]) THEN "rej:C18_Tagging"
    ELSE IF ~(Aligned(c.all) /\ Aligned(c.first)) THEN "rej:C07_Aligned"
    ELSE LET L   == IF ranged \/ c.obs THEN Decode(c.stream) ELSE L0
             cx  == Cx(L, c.mfm, c.ofm)
             sp  == Spans(P, cx)
             all == Pairs(c.all)
             fst == Pairs(c.first)
         IN
         IF ~S!Genuine(sp, all) THEN "rej:Genuine"
         \* a capture first bound inside a $not: the semantics is only a necessary condition (JasmPattern!SoundScope)
         ELSE IF ~CapsOnSpine(P) THEN
              (IF ~SoundScope(P) THEN "skip:OutOfScope"
               ELSE IF ~S!Disjoint(all) \/ ~S!Increasing(all) THEN "rej:C11_Order"
               ELSE IF fst # SubSeq(all, 1, IF all = <<>> THEN 0 ELSE 1) THEN "rej:C12_FirstPrefix"
               ELSE IF c.all_addr # [a \in DOMAIN all |-> L[all[a][1]].addr] THEN "rej:C07_Addr"
               ELSE IF c.first_addr # [a \in DOMAIN fst |-> L[fst[a][1]].addr] THEN "rej:C12_AddrFirst"
               ELSE IF \E b \in DOMAIN c.bools : c.bools[b] # (all # <<>>) THEN "rej:C12_Bool"
               ELSE IF all # <<>> THEN "ok:sound:F" ELSE "ok:sound:N")
         ELSE IF (all = <<>>) # (sp = {}) THEN "rej:Verdict"
         ELSE IF ~S!ValidScanAll(sp, n, all) THEN "rej:C11_Scan"
         ELSE IF ~S!ValidScanFirst(sp, n, fst) THEN "rej:C11_First"
         ELSE IF fst # SubSeq(all, 1, IF all = <<>> THEN 0 ELSE 1) THEN "rej:C12_FirstPrefix"
         ELSE IF c.all_addr # [a \in DOMAIN all |-> L[all[a][1]].addr] THEN "rej:C07_Addr"
         ELSE IF c.first_addr # [a \in DOMAIN fst |-> L[fst[a][1]].addr] THEN "rej:C12_AddrFirst"
         ELSE IF \E b \in DOMAIN c.bools : c.bools[b] # (all # <<>>) THEN "rej:C12_Bool"
         ELSE IF all # <<>> THEN "ok:F" ELSE "ok:N"

\* a rejection carries the tags of the known-finding classes the case belongs to
Verdict(c) == LET v == Check(c) IN
              IF IsPrefixStr("rej", v) THEN v \o Tags(Pats[c.p], Lsts[c.l]) ELSE v

Init == idx \in DOMAIN Cases /\ verdict = "?"
Next == verdict = "?" /\ verdict' = Verdict(Cases[idx]) /\ UNCHANGED idx
Spec == Init /\ [][Next]_vars
=============================================================================
