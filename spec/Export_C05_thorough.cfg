INIT Init
NEXT Next
CONSTANTS
  MaxListing = 4
  RegWidths <- Widths
