SPECIFICATION Spec
CONSTANTS
  MaxBlocks = 3
  MaxOps = 3
INVARIANT GrammarConsistent
CHECK_DEADLOCK FALSE
