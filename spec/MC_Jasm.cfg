SPECIFICATION MCSpec
CONSTANTS
  FinalScan = TRUE
  Scheme = "fixed"
  RuleDocs <- Docs
  Listings <- Lsts
INVARIANT EndToEnd
CHECK_DEADLOCK FALSE
