INIT XInit
NEXT XNext
CONSTANTS
  FinalScan = TRUE
  Scheme = "fixed"
  RuleDocs <- Docs
  Listings <- Lsts
