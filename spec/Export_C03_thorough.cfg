INIT Init
NEXT Next
CONSTANTS
  Depth2 = "full"
  MaxListing = 4
