------------------------------ MODULE MC_Scan ------------------------------
(***************************************************************************)
(* Design-level check of the scan: for EVERY set of (non-empty) spans over *)
(* listings of up to MaxN instructions, the complete behaviours of the     *)
(* state machine produce exactly the results accepted by ValidScan, and     *)
(* every such result has the properties C11 lists.                         *)
(***************************************************************************)
EXTENDS Naturals, Sequences, FiniteSets, TLC
CONSTANT MaxN
VARIABLES n, spans, firstOnly, pos, reported, done
S == INSTANCE JasmScan
vars == <<n, spans, firstOnly, pos, reported, done>>

AllSpans(k) == { sp \in (1..k) \X (2..(k + 1)) : sp[1] < sp[2] }

Init == /\ n \in 0..MaxN
        /\ spans \in SUBSET AllSpans(n)
        /\ firstOnly \in BOOLEAN
        /\ S!InitScan
Next == S!Next
Spec == Init /\ [][Next]_vars

\* soundness: whatever a finished scan reports is a valid scan result
Sound == done =>
    IF firstOnly THEN S!ValidScanFirst(spans, n, reported)
    ELSE S!ValidScanAll(spans, n, reported)
\* and has the consequences C11 names
Consequences == done =>
    /\ S!Disjoint(reported) /\ S!Increasing(reported) /\ S!Genuine(spans, reported)
    /\ S!LeftmostFirst(spans, reported)
    /\ (~firstOnly => S!NothingSkipped(spans, n, reported))
    /\ (reported = <<>> <=> spans = {})
\* partial results are prefixes of valid scans: the scan never gets stuck
NoDeadEnd == ~done => ENABLED S!Next
\* first-match mode reports the first element of some all-matches result
FirstIsPrefix == (done /\ firstOnly /\ reported # <<>>) =>
    \E e2 \in 2..(n + 1) : <<reported[1][1], e2>> \in spans
=============================================================================
