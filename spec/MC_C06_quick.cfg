SPECIFICATION Spec
CONSTANTS
  PBase <- Q_PBase
  PIndex <- Q_PIndex
  PDisp <- Q_PDisp
  OBase <- Q_OBase
  OIndex <- Q_OIndex
  ODisp <- Q_ODisp
INVARIANT C06_Agree
CHECK_DEADLOCK FALSE
