SPECIFICATION Spec
CONSTANTS
  FinalScan = FALSE
  Which = "C19"
INVARIANT C19_NoneKept
CHECK_DEADLOCK FALSE
