------------------------------- MODULE U_C11 -------------------------------
(***************************************************************************)
(* Universe of C11: patterns that cannot match the empty sequence, with    *)
(* repetition ranges and alternatives of different lengths (several ends   *)
(* for one start), on listings with adjacent, separated and overlapping    *)
(* candidate occurrences.                                                  *)
(***************************************************************************)
EXTENDS JasmUniverse
CONSTANTS MaxListing

I(m) == PIns(m, <<>>)
T(m, lo, hi) == PInsT(m, <<>>, lo, hi)
Patterns == { PAnd(<<I("a")>>), PAnd(<<T("a", 1, 2)>>), PAnd(<<T("a", 2, 2)>>), PAnd(<<T("a", 1, 3), T("b", 0, 1)>>),
              PAnd(<<I("a"), T("b", 0, 2)>>), PAnd(<<I("a"), I("a")>>), PAnd(<<I("a"), I("b")>>),
              PAnd(<<I("a"), I("b"), I("a")>>), PAnd(<<POr(<<I("a"), PAnd(<<I("a"), I("b")>>)>>)>>),
              PAnd(<<POr(<<PAnd(<<I("a"), I("b")>>), I("a")>>), T("a", 0, 1)>>),
              PAnd(<<PPerm(<<I("a"), I("b")>>)>>), PAnd(<<WithTimes(PNot(I("b")), 1, 2)>>),
              PAnd(<<PNot(I("a")), I("a")>>), PAnd(<<PICap("i"), PICap("i")>>),
              PAnd(<<WithTimes(POr(<<I("a"), I("b")>>), 2, 3)>>), PAnd(<<I("a"), PNot(I("c")), I("a")>>),
              PAnd(<<T("a", 1, 3), I("a")>>), PAnd(<<T("a", 0, 2), I("a"), I("b")>>),
              PAnd(<<WithTimes(POr(<<I("a"), I("b")>>), 1, 2), I("b")>>) }
ASSUME \A P \in Patterns : ~Nullable(P)
Bodies == { <<m, <<>> >> : m \in {"a", "b", "c"} }
Listings == ListingsOver(Bodies, 0, MaxListing)
\* a relocatable object with several code sections: every section starts at address 0, so identical
\* (address, instruction) records occur more than once -- each occurrence is its own match
DupAddr(body) == [n \in DOMAIN body |-> Ins(<<"0", "4", "8", "0", "4", "8">>[n], body[n][1], body[n][2])]
DupListings == { DupAddr(s \o s) : s \in SeqsBetween(Bodies, 2, 3) }
Universe == [patterns |-> SetToSeq(Patterns), listings |-> SetToSeq(Listings \cup DupListings)]
=============================================================================
