------------------------------- MODULE U_C11 -------------------------------
(***************************************************************************)
(* Universe of C11: patterns that cannot match the empty sequence, with    *)
(* repetition ranges and alternatives of different lengths (several ends   *)
(* for one start), on listings with adjacent, separated and overlapping    *)
(* candidate occurrences.                                                  *)
(***************************************************************************)
EXTENDS JasmUniverse, JasmObjdump
CONSTANTS MaxListing

I(m) == PIns(m, <<>>)
T(m, lo, hi) == PInsT(m, <<>>, lo, hi)
Patterns == { PAnd(<<I("a")>>), PAnd(<<T("a", 1, 2)>>), PAnd(<<T("a", 2, 2)>>), PAnd(<<T("a", 1, 3), T("b", 0, 1)>>),
              PAnd(<<I("a"), T("b", 0, 2)>>), PAnd(<<I("a"), I("a")>>), PAnd(<<I("a"), I("b")>>),
              PAnd(<<I("a"), I("b"), I("a")>>), PAnd(<<POr(<<I("a"), PAnd(<<I("a"), I("b")>>)>>)>>),
              PAnd(<<POr(<<PAnd(<<I("a"), I("b")>>), I("a")>>), T("a", 0, 1)>>),
              PAnd(<<PPerm(<<I("a"), I("b")>>)>>), PAnd(<<WithTimes(PNot(I("b")), 1, 2)>>),
              PAnd(<<PNot(I("a")), I("a")>>), PAnd(<<PICap("i"), PICap("i")>>),
              PAnd(<<WithTimes(POr(<<I("a"), I("b")>>), 2, 3)>>), PAnd(<<I("a"), PNot(I("c")), I("a")>>),
              PAnd(<<T("a", 1, 3), I("a")>>), PAnd(<<T("a", 0, 2), I("a"), I("b")>>),
              PAnd(<<WithTimes(POr(<<I("a"), I("b")>>), 1, 2), I("b")>>),
              \* optional groups whose members are real words (absent from the listings below)
              PAnd(<<WithTimes(PAnd(<<I("inc"), I("xchg")>>), 0, 1), I("a"), I("b")>>),
              PAnd(<<I("a"), WithTimes(POr(<<PAnd(<<I("inc"), I("b")>>), I("inc")>>), 0, 2), I("a")>>),
              PAnd(<<WithTimes(PPerm(<<I("inc"), I("xchg")>>), 0, 1), I("a")>>) }
ASSUME \A P \in Patterns : ~Nullable(P)
Bodies == { <<m, <<>> >> : m \in {"a", "b", "c"} }
Listings == ListingsOver(Bodies, 0, MaxListing)
\* a relocatable object with several code sections: every section starts at address 0, so identical
\* (address, instruction) records occur more than once -- each occurrence is its own match
DupAddr(body) == [n \in DOMAIN body |-> Ins(<<"0", "4", "8", "0", "4", "8">>[n], body[n][1], body[n][2])]
DupListings == { DupAddr(s \o s) : s \in SeqsBetween(Bodies, 2, 3) }
Universe == [patterns |-> SetToSeq(Patterns), listings |-> SetToSeq(Listings \cup DupListings)]

\* listings as objdump prints a linked binary: several `Disassembly of section' headers and symbol labels BETWEEN
\* the instructions; an occurrence may straddle them, and a shorter occurrence may lie inside a longer one
Sym == {"a", "b", "S", "T", "L"}        \* instruction a / b, header .init, header .text, a label
LineOf(x, n) == CASE x = "S" -> SectionLine(".init")
                  [] x = "T" -> SectionLine(".text")
                  [] x = "L" -> LabelLine("0000000000401000", "f")
                  [] OTHER   -> InsnLine(AddrTable[n], <<"90">>, x, <<>>)
SecTexts == { [n \in DOMAIN s |-> LineOf(s[n], n)] :
              s \in { s \in SeqsBetween(Sym, 2, 4) : \E n \in DOMAIN s : s[n] \in {"S", "T", "L"} } }
SecSeq == SetToSeq(SecTexts)
PatternsS == { PAnd(<<POr(<<PAnd(<<I("a"), I("b"), I("a")>>), I("b")>>)>>), PAnd(<<POr(<<I("b"), PAnd(<<I("a"), I("b")>>)>>)>>),
               PAnd(<<I("a"), I("b")>>), PAnd(<<T("a", 1, 3)>>), PAnd(<<POr(<<PAnd(<<I("a"), I("a")>>), I("a")>>), T("b", 0, 1)>>) }
UniverseS == [patterns |-> SetToSeq(PatternsS),
              listings |-> [n \in DOMAIN SecSeq |-> Stream(SecSeq[n])],
              texts    |-> [n \in DOMAIN SecSeq |-> ListingLines(SecSeq[n])]]
=============================================================================
