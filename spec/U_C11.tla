------------------------------- MODULE U_C11 -------------------------------
(***************************************************************************)
(* Universe of C11: patterns that cannot match the empty sequence, with    *)
(* repetition ranges and alternatives of different lengths (several ends   *)
(* for one start), on listings with adjacent, separated and overlapping    *)
(* candidate occurrences.                                                  *)
(***************************************************************************)
EXTENDS JasmUniverse
CONSTANTS MaxListing

I(m) == PIns(m, <<>>)
T(m, lo, hi) == PInsT(m, <<>>, lo, hi)
Patterns == { PAnd(<<I("a")>>), PAnd(<<T("a", 1, 2)>>), PAnd(<<T("a", 2, 2)>>), PAnd(<<T("a", 1, 3), T("b", 0, 1)>>),
              PAnd(<<I("a"), T("b", 0, 2)>>), PAnd(<<I("a"), I("a")>>), PAnd(<<I("a"), I("b")>>),
              PAnd(<<I("a"), I("b"), I("a")>>), PAnd(<<POr(<<I("a"), PAnd(<<I("a"), I("b")>>)>>)>>),
              PAnd(<<POr(<<PAnd(<<I("a"), I("b")>>), I("a")>>), T("a", 0, 1)>>),
              PAnd(<<PPerm(<<I("a"), I("b")>>)>>), PAnd(<<WithTimes(PNot(I("b")), 1, 2)>>),
              PAnd(<<PNot(I("a")), I("a")>>), PAnd(<<PICap("i"), PICap("i")>>),
              PAnd(<<WithTimes(POr(<<I("a"), I("b")>>), 2, 3)>>), PAnd(<<I("a"), PNot(I("c")), I("a")>>),
              PAnd(<<T("a", 1, 3), I("a")>>), PAnd(<<T("a", 0, 2), I("a"), I("b")>>),
              PAnd(<<WithTimes(POr(<<I("a"), I("b")>>), 1, 2), I("b")>>) }
ASSUME \A P \in Patterns : ~Nullable(P)
Bodies == { <<m, <<>> >> : m \in {"a", "b", "c"} }
Listings == ListingsOver(Bodies, 0, MaxListing)
Universe == [patterns |-> SetToSeq(Patterns), listings |-> SetToSeq(Listings)]
=============================================================================
