SPECIFICATION Spec
INVARIANT C17_Loud
INVARIANT FaultEnds
CHECK_DEADLOCK FALSE
