----------------------------- MODULE JasmPattern -----------------------------
(***************************************************************************)
(* Abstract syntax and reference semantics of the JASM pattern DSL over    *)
(* instruction lists.  This is the property-level semantics of C01..C07,   *)
(* C11, C12: it talks about instructions, operands and names, never about  *)
(* regular expressions.  All matchers are set valued: engine priority      *)
(* (which end the regex engine prefers for a start) is not modelled.       *)
(*                                                                         *)
(* Three syntactic levels, mirroring the three builder chains of           *)
(* ast_builder.py:                                                         *)
(*   instruction level  ins and or not perm icap                           *)
(*   operand level      lit oand oor onot operm ocap rcap deref            *)
(*   deref-field level  dfield(flit for fcap frcap)                        *)
(* Every node is a record with one uniform field set so that TLC can       *)
(* compare any two nodes.                                                  *)
(***************************************************************************)
EXTENDS JasmText

Node(k, name, kids, lo, hi) ==
    [k |-> k, name |-> name, kids |-> kids, lo |-> lo, hi |-> hi, fam |-> "", w |-> ""]
RNode(k, name, fam, w) ==
    [k |-> k, name |-> name, kids |-> <<>>, lo |-> 1, hi |-> 1, fam |-> fam, w |-> w]

\* convenience constructors
PIns(m, ops)       == Node("ins", m, ops, 1, 1)
PInsT(m, ops, l, h) == Node("ins", m, ops, l, h)
PAnd(ks)  == Node("and", "", ks, 1, 1)
POr(ks)   == Node("or", "", ks, 1, 1)
PNot(x)   == Node("not", "", <<x>>, 1, 1)
PPerm(ks) == Node("perm", "", ks, 1, 1)
PICap(n)  == Node("icap", n, <<>>, 1, 1)
OLit(n)   == Node("lit", n, <<>>, 1, 1)
OCap(n)   == Node("ocap", n, <<>>, 1, 1)
OOr(ks)   == Node("oor", "", ks, 1, 1)
OAnd(ks)  == Node("oand", "", ks, 1, 1)
ONot(x)   == Node("onot", "", <<x>>, 1, 1)
OPerm(ks) == Node("operm", "", ks, 1, 1)
ORCap(n, fam, w) == RNode("rcap", n, fam, w)
WithTimes(p, l, h) == [p EXCEPT !.lo = l, !.hi = h]

InsKinds == {"ins", "and", "or", "not", "perm", "icap"}
OpKinds  == {"lit", "oand", "oor", "onot", "operm", "ocap", "rcap", "deref"}

(***************************************************************************)
(* Register families of the special register captures (README, "Special    *)
(* registry capture groups").  RegName(fam, r, w) is the architectural     *)
(* register r of family fam at width w, "" where the width does not exist. *)
(***************************************************************************)
Families == {"genreg", "indreg", "stackreg", "basereg"}
Widths   == {"64", "32", "16", "8h", "8l"}
FamRegs(fam) == CASE fam = "genreg"   -> {"a", "b", "c", "d"}
                  [] fam = "indreg"   -> {"s", "d"}
                  [] fam = "stackreg" -> {"sp"}
                  [] fam = "basereg"  -> {"bp"}
                  [] OTHER -> {}
RegName(fam, r, w) ==
    CASE fam = "genreg" ->
            (CASE w = "64" -> "r" \o r \o "x" [] w = "32" -> "e" \o r \o "x"
               [] w = "16" -> r \o "x" [] w = "8h" -> r \o "h" [] w = "8l" -> r \o "l"
               [] OTHER -> "")
      [] fam = "indreg" ->
            (CASE w = "64" -> "r" \o r \o "i" [] w = "32" -> "e" \o r \o "i"
               [] w = "16" -> r \o "i" [] w = "8l" -> r \o "il" [] OTHER -> "")
      [] fam \in {"stackreg", "basereg"} ->
            (CASE w = "64" -> "r" \o r [] w = "32" -> "e" \o r
               [] w = "16" -> r [] w = "8l" -> r \o "l" [] OTHER -> "")
      [] OTHER -> ""
\* the registers (family member, width) an operand text denotes
RegOf(fam, txt) ==
    { <<r, w>> \in FamRegs(fam) \X Widths :
         RegName(fam, r, w) # "" /\ txt = "%" \o RegName(fam, r, w) }

(***************************************************************************)
(* Memory operands in the normal form of C09: [a+b*c+k] with absent parts  *)
(* omitted.  ParseMem yields the components ("" = absent) or ok = FALSE.   *)
(***************************************************************************)
ParseMem(o) ==
    IF ~(Len(o) >= 2 /\ Ch(o, 1) = "[" /\ Ch(o, Len(o)) = "]")
    THEN [ok |-> FALSE, a |-> "", b |-> "", c |-> "", k |-> ""]
    ELSE LET ps == SplitStr(SubSeq(o, 2, Len(o) - 1), "+")
             star(p) == FindFrom("*", p, 1)
             IsBC(p) == star(p) > 0
             rest == SubSeq(ps, 2, Len(ps))
         IN  \* ps[1] is the base (possibly empty); then optionally b*c; then optionally k
             IF Len(rest) = 0 THEN [ok |-> TRUE, a |-> ps[1], b |-> "", c |-> "", k |-> ""]
             ELSE IF Len(rest) = 1 /\ IsBC(rest[1]) THEN
                  [ok |-> TRUE, a |-> ps[1], b |-> SubSeq(rest[1], 1, star(rest[1]) - 1),
                   c |-> DropStr(rest[1], star(rest[1])), k |-> ""]
             ELSE IF Len(rest) = 1 THEN [ok |-> TRUE, a |-> ps[1], b |-> "", c |-> "", k |-> rest[1]]
             ELSE IF Len(rest) = 2 /\ IsBC(rest[1]) /\ ~IsBC(rest[2]) THEN
                  [ok |-> TRUE, a |-> ps[1], b |-> SubSeq(rest[1], 1, star(rest[1]) - 1),
                   c |-> DropStr(rest[1], star(rest[1])), k |-> rest[2]]
             ELSE [ok |-> FALSE, a |-> "", b |-> "", c |-> "", k |-> ""]

DerefFieldNames == <<"main_reg", "register_multiplier", "constant_multiplier", "constant_offset">>
FieldOf(d, fname) ==   \* the field pattern, or a node of kind "none"
    IF \E n \in DOMAIN d.kids : d.kids[n].name = fname
    THEN d.kids[CHOOSE n \in DOMAIN d.kids : d.kids[n].name = fname].kids[1]
    ELSE Node("none", "", <<>>, 1, 1)
IsRegField(fname) == fname \in {"main_reg", "register_multiplier"}

(***************************************************************************)
(* Capture environments: sets of <<name, value>>, at most one per name.    *)
(***************************************************************************)
Bound(env, n)  == \E b \in env : b[1] = n
ValOf(env, n)  == (CHOOSE b \in env : b[1] = n)[2]
Bind(env, n, v) == env \cup {<<n, v>>}

\* flags: cx.mfm / cx.ofm (mnemonics-full-match / operands-full-match)
\* The shipped wildcard macro @any (tests/macros/jasm_macros.yaml, README "Matches any
\* command"): as a mnemonic or operand name it stands for any one non-empty field.
AnyName == "@any"
NameHolds(name, txt, full) ==
    IF name = AnyName THEN txt # ""
    ELSE IF full THEN txt = name ELSE IsInfixStr(name, txt)

(***************************************************************************)
(* Deref-field level: MF(fp, comp, isReg, env) \subseteq environments      *)
(***************************************************************************)
RECURSIVE MF(_, _, _, _)
MF(fp, comp, isReg, env) ==
    CASE fp.k = "flit" ->
            IF comp = fp.name \/ comp = (IF isReg THEN "%" ELSE "0x") \o fp.name THEN {env} ELSE {}
      [] fp.k = "for" -> UNION { MF(fp.kids[n], comp, isReg, env) : n \in DOMAIN fp.kids }
      [] fp.k = "fcap" ->
            IF Bound(env, fp.name) THEN (IF ValOf(env, fp.name) = comp THEN {env} ELSE {})
            ELSE IF comp # "" THEN {Bind(env, fp.name, comp)} ELSE {}
      [] fp.k = "frcap" ->
            LET cands == { rw \in RegOf(fp.fam, comp) : fp.w = "" \/ rw[2] = fp.w } IN
            IF Bound(env, fp.name)
            THEN (IF \E rw \in cands : rw[1] = ValOf(env, fp.name) THEN {env} ELSE {})
            ELSE { Bind(env, fp.name, rw[1]) : rw \in cands }
      [] OTHER -> {}

\* all four components of a deref against a parsed memory operand
RECURSIVE MDeref(_, _, _, _)
MDeref(d, m, n, env) ==
    IF n > 4 THEN {env}
    ELSE LET fname == DerefFieldNames[n]
             fp    == FieldOf(d, fname)
             comp  == CASE n = 1 -> m.a [] n = 2 -> m.b [] n = 3 -> m.c [] OTHER -> m.k
         IN  IF fp.k = "none"
             THEN (IF comp = "" THEN MDeref(d, m, n + 1, env) ELSE {})
             ELSE IF comp = "" THEN {}
             ELSE UNION { MDeref(d, m, n + 1, e2) : e2 \in MF(fp, comp, IsRegField(fname), env) }

(***************************************************************************)
(* Operand level: MO(q, ops, k, env, cx) \subseteq <<k', env'>>            *)
(*   q matches the operands ops[k..k'-1]                                    *)
(***************************************************************************)
Perms(n) == { f \in [1..n -> 1..n] : \A i, j \in 1..n : i # j => f[i] # f[j] }

RECURSIVE MO(_, _, _, _, _), MOB(_, _, _, _, _), MON(_, _, _, _, _, _), MOS(_, _, _, _, _)
MO(q, ops, k, env, cx) == UNION { MON(q, ops, k, env, cx, n) : n \in q.lo..q.hi }
MON(q, ops, k, env, cx, n) ==
    IF n = 0 THEN {<<k, env>>}
    ELSE UNION { MON(q, ops, r[1], r[2], cx, n - 1) : r \in MOB(q, ops, k, env, cx) }
MOS(qs, ops, k, env, cx) ==
    IF qs = <<>> THEN {<<k, env>>}
    ELSE UNION { MOS(Tail(qs), ops, r[1], r[2], cx) : r \in MO(Head(qs), ops, k, env, cx) }
MOB(q, ops, k, env, cx) ==
    CASE q.k = "oand"  -> MOS(q.kids, ops, k, env, cx)
      [] q.k = "oor"   -> UNION { MO(q.kids[n], ops, k, env, cx) : n \in DOMAIN q.kids }
      [] q.k = "operm" -> UNION { MOS([n \in DOMAIN q.kids |-> q.kids[f[n]]], ops, k, env, cx)
                                   : f \in Perms(Len(q.kids)) }
      [] q.k = "onot"  -> IF k <= Len(ops) /\ MO(q.kids[1], ops, k, env, cx) = {}
                          THEN {<<k + 1, env>>} ELSE {}
      [] OTHER ->
         IF k > Len(ops) THEN {}
         ELSE LET o == ops[k] IN
           CASE q.k = "lit"  -> IF NameHolds(q.name, o, cx.ofm) THEN {<<k + 1, env>>} ELSE {}
             [] q.k = "ocap" ->
                   IF Bound(env, q.name)
                   THEN (IF ValOf(env, q.name) = o THEN {<<k + 1, env>>} ELSE {})
                   ELSE {<<k + 1, Bind(env, q.name, o)>>}
             [] q.k = "rcap" ->
                   LET cands == { rw \in RegOf(q.fam, o) : q.w = "" \/ rw[2] = q.w } IN
                   IF Bound(env, q.name)
                   THEN (IF \E rw \in cands : rw[1] = ValOf(env, q.name) THEN {<<k + 1, env>>} ELSE {})
                   ELSE { <<k + 1, Bind(env, q.name, rw[1])>> : rw \in cands }
             \* instantiation targets of C05_Subst (no concrete syntax): an operand equal to a
             \* text / the register q.name of family q.fam at width q.w (any width if "")
             [] q.k = "oexact" -> IF o = q.name THEN {<<k + 1, env>>} ELSE {}
             [] q.k = "rexact" ->
                   IF \E rw \in RegOf(q.fam, o) : rw[1] = q.name /\ (q.w = "" \/ rw[2] = q.w)
                   THEN {<<k + 1, env>>} ELSE {}
             [] q.k = "deref" ->
                   LET m == ParseMem(o) IN
                   IF m.ok THEN { <<k + 1, e2>> : e2 \in MDeref(q, m, 1, env) } ELSE {}
             [] OTHER -> {}

(***************************************************************************)
(* Instruction level: MI(p, cx, i, env) \subseteq <<j, env'>>              *)
(*   p matches the instructions cx.L[i..j-1]                               *)
(***************************************************************************)
RECURSIVE MI(_, _, _, _), MIB(_, _, _, _), MIN(_, _, _, _, _), MIS(_, _, _, _)
MI(p, cx, i, env) == UNION { MIN(p, cx, i, env, n) : n \in p.lo..p.hi }
MIN(p, cx, i, env, n) ==
    IF n = 0 THEN {<<i, env>>}
    ELSE UNION { MIN(p, cx, r[1], r[2], n - 1) : r \in MIB(p, cx, i, env) }
MIS(ps, cx, i, env) ==
    IF ps = <<>> THEN {<<i, env>>}
    ELSE UNION { MIS(Tail(ps), cx, r[1], r[2]) : r \in MI(Head(ps), cx, i, env) }
MIB(p, cx, i, env) ==
    CASE p.k = "and"  -> MIS(p.kids, cx, i, env)
      [] p.k = "or"   -> UNION { MI(p.kids[n], cx, i, env) : n \in DOMAIN p.kids }
      [] p.k = "perm" -> UNION { MIS([n \in DOMAIN p.kids |-> p.kids[f[n]]], cx, i, env)
                                  : f \in Perms(Len(p.kids)) }
      [] p.k = "not"  -> IF i <= Len(cx.L) /\ MI(p.kids[1], cx, i, env) = {}
                         THEN {<<i + 1, env>>} ELSE {}
      [] OTHER ->
         IF i > Len(cx.L) THEN {}
         ELSE LET ins == cx.L[i] IN
           CASE p.k = "ins" ->
                   IF NameHolds(p.name, ins.mn, cx.mfm)
                   \* operand patterns consume a prefix of the operand list,
                   \* further operands are free (C01)
                   THEN { <<i + 1, r[2]>> : r \in MOS(p.kids, ins.ops, 1, env, cx) }
                   ELSE {}
             \* instantiation target of C05_Subst: exactly this mnemonic and these operands
             [] p.k = "xins" ->
                   IF ins.mn = p.name /\ ins.ops = [k \in DOMAIN p.kids |-> p.kids[k].name]
                   THEN {<<i + 1, env>>} ELSE {}
             [] p.k = "icap" ->
                   LET v == <<ins.mn, ins.ops>> IN
                   IF Bound(env, p.name)
                   THEN (IF ValOf(env, p.name) = v THEN {<<i + 1, env>>} ELSE {})
                   ELSE {<<i + 1, Bind(env, p.name, v)>>}
             [] OTHER -> {}

Cx(L, mfm, ofm) == [L |-> L, mfm |-> mfm, ofm |-> ofm]

EndsAt(P, cx, i)  == { r[1] : r \in MI(P, cx, i, {}) }
StartsAt(P, cx, i) == MI(P, cx, i, {}) # {}
Spans(P, cx) == UNION { { <<i, j>> : j \in EndsAt(P, cx, i) } : i \in 1..(Len(cx.L) + 1) }
Found(P, cx) == \E i \in 1..(Len(cx.L) + 1) : StartsAt(P, cx, i)

(***************************************************************************)
(* Scope predicates used by the property quantifiers.                       *)
(***************************************************************************)
RECURSIVE Nullable(_)
Nullable(p) ==
    \/ p.lo = 0
    \/ p.k \in {"and", "perm"} /\ \A n \in DOMAIN p.kids : Nullable(p.kids[n])
    \/ p.k = "or" /\ \E n \in DOMAIN p.kids : Nullable(p.kids[n])

\* capture names in document (pre-)order of first occurrence
RECURSIVE CapSeq(_)
CapSeq(p) ==
    (IF p.k \in {"icap", "ocap", "rcap", "fcap", "frcap"} THEN <<p.name>> ELSE <<>>)
    \o (LET RECURSIVE Cat(_)
            Cat(ks) == IF ks = <<>> THEN <<>> ELSE CapSeq(Head(ks)) \o Cat(Tail(ks))
        IN Cat(p.kids))
CapNames(p) == { CapSeq(p)[n] : n \in DOMAIN CapSeq(p) }

\* sequence of <<name, onSpine>> in document order
RECURSIVE CapOcc(_, _)
CapOcc(p, spine) ==
    LET here == spine /\ p.lo = 1 /\ p.hi = 1
        sub  == here /\ p.k \in {"and", "ins", "oand", "deref", "dfield"}
        RECURSIVE Cat(_)
        Cat(ks) == IF ks = <<>> THEN <<>> ELSE CapOcc(Head(ks), sub) \o Cat(Tail(ks))
    IN (IF p.k \in {"icap", "ocap", "rcap", "fcap", "frcap"} THEN <<<<p.name, here>>>> ELSE <<>>)
       \o Cat(p.kids)
\* every capture's first occurrence lies on the executed-exactly-once spine (C05)
CapsOnSpine(P) ==
    LET occ == CapOcc(P, TRUE) IN
    \A n \in DOMAIN occ :
        (\A m \in 1..(n - 1) : occ[m][1] # occ[n][1]) => occ[n][2]

(***************************************************************************)
(* Captures whose first occurrence lies inside the argument of a $not.      *)
(* The statements do not say whether such a name is still bound after the  *)
(* $not.  Under every reading, though, a reported match is a match of the  *)
(* reading in which the name is LOCAL to the argument (MI: a $not returns   *)
(* the environment unchanged): a reading in which the binding leaks only    *)
(* adds equality constraints.  So for these patterns the semantics is a     *)
(* necessary condition on reported matches ("sound only"), not a complete  *)
(* description.  SoundScope: every name is either defined on the spine, or  *)
(* first occurs on the spine of ONE $not argument (itself on the spine),    *)
(* occurs in no other $not, and what occurs outside starts on the spine.    *)
(***************************************************************************)
RECURSIVE CapOccN(_, _, _, _)
CapOccN(p, mode, nid, path) ==      \* sequence of <<name, "spine" | "not" | "off", id of the enclosing $not>>
    LET here  == IF p.lo = 1 /\ p.hi = 1 THEN mode ELSE "off"
        enter == here = "spine" /\ p.k \in {"not", "onot"}
        sub   == IF enter THEN "not"
                 ELSE IF here # "off" /\ p.k \in {"and", "ins", "oand", "deref", "dfield"} THEN here ELSE "off"
        subid == IF enter THEN path ELSE nid
        RECURSIVE Cat(_)
        Cat(n) == IF n > Len(p.kids) THEN <<>> ELSE CapOccN(p.kids[n], sub, subid, Append(path, n)) \o Cat(n + 1)
    IN (IF p.k \in {"icap", "ocap", "rcap", "fcap", "frcap"} THEN << <<p.name, here, nid>> >> ELSE <<>>) \o Cat(1)
MinOf(S) == CHOOSE x \in S : \A y \in S : x <= y
SoundScope(P) ==
    LET occ == CapOccN(P, "spine", <<0>>, <<>>)
        Idx(nm) == { n \in DOMAIN occ : occ[n][1] = nm }
    IN \A nm \in { occ[n][1] : n \in DOMAIN occ } :
         LET f   == MinOf(Idx(nm))
             out == { n \in Idx(nm) : occ[n][3] = <<0>> }
         IN IF occ[f][3] = <<0>> THEN occ[f][2] = "spine"
            ELSE /\ occ[f][2] = "not"
                 /\ \A n \in Idx(nm) : occ[n][3] \in {<<0>>, occ[f][3]}
                 /\ (out = {} \/ occ[MinOf(out)][2] = "spine")

RECURSIVE HasKind(_, _)
HasKind(p, ks) == p.k \in ks \/ \E n \in DOMAIN p.kids : HasKind(p.kids[n], ks)

\* an operand name of the form <hex>h is rewritten by JASM (hex-immediate
\* notation, e.g. 10h -> 0x10); such names are outside the literal-name scope
HexImmName(n) == Len(n) >= 2 /\ Ch(n, Len(n)) = "h" /\ IsHexStr(SubSeq(n, 1, Len(n) - 1))

MetaChars == {".", "^", "$", "*", "+", "?", "(", ")", "[", "]", "{", "}", "|", "\\"}
LiteralName(n) == \A i \in 1..Len(n) : Ch(n, i) \notin MetaChars
=============================================================================
