SPECIFICATION Spec
CONSTANTS
  Scheme = "fixed"
  MaxL = 2
  Part = "not"
INVARIANT CompileRefines
CHECK_DEADLOCK FALSE
