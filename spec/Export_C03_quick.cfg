INIT Init
NEXT Next
CONSTANTS
  Depth2 = "ab"
  MaxListing = 3
