SPECIFICATION Spec
CONSTANTS
  Scheme = "fixed"
  MaxL = 3
  Part = "deref"
INVARIANT CompileRefines
CHECK_DEADLOCK FALSE
