------------------------------- MODULE U_Range -------------------------------
(***************************************************************************)
(* Rules WITH valid_addr_range as inputs of the properties that are not    *)
(* about the option itself (C07, C11, C12): the option rewrites operands   *)
(* of some branches (C18); it must not remove instructions, move addresses,*)
(* lose findings or make the modes disagree.  Listings with direct calls   *)
(* into and out of the ranges (two calls to the same target), with the     *)
(* first instructions below the range's lower bound.                       *)
(***************************************************************************)
EXTENDS JasmPattern, SequencesExt
RI(m) == PIns(m, <<>>)
RangePatterns == { PAnd(<<RI("mov"), RI("pop")>>), PAnd(<<RI("call"), RI("pop")>>), PAnd(<<RI("mov"), RI("call"), RI("pop")>>),
                   PAnd(<<PIns("call", <<OLit("valid_addr")>>)>>), PAnd(<<RI("call")>>), PAnd(<<RI("pop")>>), PAnd(<<RI("mov")>>),
                   PAnd(<<WithTimes(PNot(RI("call")), 2, 2)>>), PAnd(<<POr(<<RI("mov"), RI("pop")>>)>>) }
RangeListing(t1, t2) == << Ins("401000", "mov", <<"%rsp", "%rbp">>), Ins("401003", "call", <<t1>>), Ins("401008", "pop", <<"%rbp">>),
                           Ins("401009", "call", <<t2>>), Ins("40100e", "pop", <<"%rbx">>), Ins("40100f", "mov", <<"%rax", "%rbx">>),
                           Ins("401012", "jmp", <<t1>>), Ins("401017", "pop", <<"%rax">>) >>
RangeListings == { RangeListing(t1, t2) : t1, t2 \in {"401020", "7f0000"} }
RangeRanges == { <<"0x401000", "0x401fff">>, <<"0x401008", "0x401fff">>, <<"0x7f0000", "0x7f0000">>, <<"0x401010", "0x401020">> }
UniverseRange == [patterns |-> SetToSeq(RangePatterns), listings |-> SetToSeq(RangeListings), ranges |-> SetToSeq(RangeRanges)]
=============================================================================
