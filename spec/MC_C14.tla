------------------------------- MODULE MC_C14 -------------------------------
EXTENDS JasmSession, JasmPattern, TLC
\* the rule documents of the C14 universe differ in exactly the state-bearing features
RuleIds == {"plain", "mfm", "ofm", "range", "range2", "sections", "sections2", "style", "caps", "macros", "xmacros", "xlib_a", "xlib_b", "bigrange", "hexint", "regcapA", "regcapB", "pmacroA", "pmacroB"}
CfgTable == [r \in RuleIds |->
    CASE r = "mfm"      -> RuleCfg("T", "-", "-", <<>>, <<>>)
      [] r = "ofm"      -> RuleCfg("F", "T", "-", <<>>, <<>>)
      [] r \in {"range", "bigrange"} -> RuleCfg("-", "-", "-", <<"0x401000", "0x401010">>, <<>>)
      [] r = "range2"   -> RuleCfg("-", "-", "-", <<"0x402000", "0x402fff">>, <<>>)    \* the other call target of the listing
      [] r = "sections2" -> RuleCfg("-", "-", "-", <<>>, <<".text">>)
      [] r = "sections" -> RuleCfg("-", "-", "-", <<>>, <<".foo">>)
      [] r = "style"    -> RuleCfg("-", "-", "att", <<>>, <<>>)
      [] OTHER          -> NoCfg]

\* ---- the rule documents (pattern, macros) and the listing they are run on ----------------
I(m) == PIns(m, <<>>)
PatternOf(r) ==
    CASE r = "plain"    -> PAnd(<<I("call")>>)
      [] r = "mfm"      -> PAnd(<<I("cal")>>)                       \* found only without mnemonics-full-match
      [] r = "ofm"      -> PAnd(<<PIns("call", <<OLit("4010")>>)>>)  \* found only without operands-full-match
      [] r \in {"range", "range2"} -> PAnd(<<PIns("call", <<OLit("valid_addr")>>)>>)
      [] r = "sections2" -> PAnd(<<I("nop")>>)
      [] r = "sections" -> PAnd(<<I("nop")>>)
      [] r = "style"    -> PAnd(<<I("ret")>>)
      [] r = "caps"     -> PAnd(<<PIns("push", <<OCap("x")>>), PIns("pop", <<OCap("x")>>)>>)
      [] r = "macros"   -> PAnd(<<I("@m")>>)
      \* hexint: the harness writes the operand as the unquoted YAML scalar 0x8, which YAML reads as the integer 8
      \* (so the name is "8", found inside 401008) -- as long as nothing has changed how YAML scalars are read
      [] r = "hexint"   -> PAnd(<<PIns("call", <<OLit("8")>>)>>)
      \* an expensive rule (120 orderings, a regex of more than 16 000 characters) whose result depends on its range
      [] r = "bigrange" -> PAnd(<<PPerm(<<I("push"), PIns("call", <<OLit("valid_addr")>>), I("pop"), I("ret"), I("call")>>)>>)
      [] OTHER          -> PAnd(<<I("@m")>>)                         \* xmacros: @m comes from an extra macro file
\* regcapA / regcapB (a register capture as group 1 / group 2) and pmacroA / pmacroB (one parameterised macro name with two
\* different bodies, identical call sites) are written by the harness as raw YAML (harness/props/c14.py, RAW_RULES)
\* string macros: <<name, body>>
\* xlib_a / xlib_b: the same extra macro file (a library macro @lib whose body uses @inner), while each rule
\* file gives @inner its own meaning -- the harness writes these two documents (see harness/props/c14.py)
MacrosOf(r)  == IF r = "macros" THEN << <<"@m", "push">> >> ELSE <<>>
XMacrosOf(r) == IF r = "xmacros" THEN << << <<"@m", "pop">> >> >> ELSE <<>>    \* one extra file
Listing == << Ins("401000", "push", <<"%rbx">>), Ins("401001", "call", <<"401008">>), Ins("401006", "pop", <<"%rbx">>),
              Ins("401007", "ret", <<>>), Ins("401008", "call", <<"402000">>), Ins("40100d", "ret", <<>>),
              Ins("40100e", "mov", <<"%rbx", "%rax">>), Ins("401011", "xor", <<"%eax", "%eax">>) >>
\* which inputs an operation on rule r is run on ("text": the listing above; "bin": an object file
\* with an executable .text and an executable .foo section, built by the harness)
InputsOf(r) == IF r \in {"sections", "sections2", "plain", "style"} THEN {"text", "bin"} ELSE {"text"}
RuleSeq == <<"plain", "mfm", "ofm", "range", "range2", "sections", "sections2", "style", "caps", "macros", "xmacros", "xlib_a", "xlib_b", "bigrange", "hexint", "regcapA", "regcapB", "pmacroA", "pmacroB">>
Export == [rules |-> [n \in DOMAIN RuleSeq |->
                        [id |-> RuleSeq[n], cfg |-> CfgTable[RuleSeq[n]], pattern |-> PatternOf(RuleSeq[n]),
                         macros |-> MacrosOf(RuleSeq[n]), xmacros |-> XMacrosOf(RuleSeq[n]),
                         inputs |-> IF "bin" \in InputsOf(RuleSeq[n]) THEN <<"text", "bin">> ELSE <<"text">>]],
           listing |-> Listing]
=============================================================================
