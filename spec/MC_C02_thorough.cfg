SPECIFICATION Spec
CONSTANTS
  MaxT = 3
  MaxGroupT = 3
  MaxBody = 6
INVARIANT C02_Unroll
CHECK_DEADLOCK FALSE
