------------------------------- MODULE MC_C15 -------------------------------
(***************************************************************************)
(* Design-level check of C15 over small abstract objects: every set of up  *)
(* to three sections, every sections list up to two names (also absent     *)
(* names, repeated names, both orders).  Checked: the two routes agree;    *)
(* the order of -j flags is irrelevant (file order rules); an absent name  *)
(* is an error on both routes; the command line has the promised shape.    *)
(***************************************************************************)
EXTENDS JasmBinary, TLC
VARIABLES obj, secs, res
vars == <<obj, secs, res>>
SecNames == {".text", ".foo", ".data"}
Sec(n) == [name |-> n, exec |-> (n # ".data"), insns |-> <<n \o ":i1", n \o ":i2">>]
Objects == { <<>> } \cup { <<Sec(a)>> : a \in SecNames }
           \cup { <<Sec(a), Sec(b)>> : <<a, b>> \in { p \in SecNames \X SecNames : p[1] # p[2] } }
           \cup { <<Sec(".text"), Sec(".foo"), Sec(".data")>>, <<Sec(".foo"), Sec(".data"), Sec(".text")>> }
SecLists == { <<>> } \cup { <<a>> : a \in SecNames \cup {".nope"} }
            \cup { <<a, b>> : a \in SecNames \cup {".nope"}, b \in SecNames }
Rev(s) == [n \in DOMAIN s |-> s[Len(s) + 1 - n]]
Holds(o, s) ==
    /\ BinaryRoute(o, "att", s) = TextRoute(o, s)
    /\ Objdump(o, s) = Objdump(o, Rev(s))
    /\ (\E k \in DOMAIN s : s[k] \notin Names(o)) <=> (~Objdump(o, s).ok)
    /\ LET a == Argv("att", s, "f") IN
         /\ Len(a) = 5 + 2 * Len(s) /\ SubSeq(a, 1, 4) = <<"objdump", "-d", "-M", "att">> /\ a[Len(a)] = "f"
         /\ \A k \in DOMAIN s : a[3 + 2 * k] = "-j" /\ a[4 + 2 * k] = s[k]
Init == obj \in Objects /\ secs \in SecLists /\ res = "?"
Next == res = "?" /\ res' = (IF Holds(obj, secs) THEN "ok" ELSE "bad") /\ UNCHANGED <<obj, secs>>
Spec == Init /\ [][Next]_vars
C15_Design == res # "bad"
\* the sections lists the conformance check uses, with the command line the specification prescribes
ExportLists == { <<>>, <<".text">>, <<".foo">>, <<".plt.got">>, <<".text", ".foo">>, <<".foo", ".text">>,
                 <<".nope">>, <<".text", ".nope">>, <<".data">>, <<".foo", ".plt.got">>,
                 <<".text.Foo_Bar">>, <<".text", ".text.Foo_Bar">>,
                 \* a code section together with a section that has contents but no CODE flag (objdump -d -j NAME
                 \* disassembles whatever section is named)
                 <<".text", ".data">>, <<".data", ".foo">> }
=============================================================================
