SPECIFICATION Spec
CONSTANT MaxN = 3
INVARIANT Sound
INVARIANT Consequences
INVARIANT NoDeadEnd
INVARIANT FirstIsPrefix
CHECK_DEADLOCK FALSE
