------------------------------- MODULE U_C03 -------------------------------
(***************************************************************************)
(* Universe of C03: nestings of $or / $and / $and_any_order at instruction *)
(* level, at operand level and inside a $deref field, with alternatives of *)
(* different lengths and with neighbours before and after the group.       *)
(***************************************************************************)
EXTENDS JasmUniverse
CONSTANTS Depth2, MaxListing

I(m) == PIns(m, <<>>)
Leaves == {I("a"), I("b"), I("c")}
Bin(X, Y) == {PAnd(<<X, Y>>), POr(<<X, Y>>), PPerm(<<X, Y>>)}
D1 == UNION { Bin(X, Y) : <<X, Y>> \in { xy \in Leaves \X Leaves : xy[1] # xy[2] } }
      \cup { POr(<<I("a"), I("b"), I("c")>>), PPerm(<<I("a"), I("b"), I("c")>>),
              PPerm(<<I("a"), I("a")>>), PPerm(<<I("a"), I("a"), I("b")>>), PPerm(<<POr(<<I("a"), I("b")>>), POr(<<I("a"), I("b")>>), I("c")>>) }
Inner == IF Depth2 = "full" THEN D1 ELSE Bin(I("a"), I("b")) \cup {PPerm(<<I("b"), I("a")>>)}
D2 == UNION { Bin(g, X) \cup Bin(X, g) : <<g, X>> \in Inner \X Leaves }
      \cup UNION { Bin(g, h) : <<g, h>> \in Bin(I("a"), I("b")) \X Bin(I("b"), I("c")) }
GroupsI == D1 \cup D2
PatternsI == { PAnd(<<g>>) : g \in GroupsI } \cup { PAnd(<<I("p"), g, I("q")>>) : g \in GroupsI }
BodiesI == { <<m, <<>> >> : m \in {"a", "b", "c", "p", "q"} }
ListingsI == ListingsOver(BodiesI, 0, MaxListing)

\* ---- operand level --------------------------------------------------------
X == OLit("x")  Y == OLit("y")  Z == OLit("z")
OBin(A, B) == {OAnd(<<A, B>>), OOr(<<A, B>>), OPerm(<<A, B>>)}
OG1 == OBin(X, Y) \cup {OOr(<<X, Y, Z>>), OPerm(<<X, Y, Z>>), OPerm(<<X, X>>), OPerm(<<X, Y, X>>)}
OG2 == UNION { OBin(g, Z) \cup OBin(Z, g) : g \in OBin(X, Y) }
       \cup { OOr(<<OAnd(<<X, Y>>), Z>>), OAnd(<<OOr(<<X, Y>>), OOr(<<Y, Z>>)>>) }
OGroups == OG1 \cup OG2
PatternsO == { PAnd(<<PIns("m", <<g>>)>>) : g \in OGroups }
        \cup { PAnd(<<PIns("m", <<X, g>>)>>) : g \in OGroups }
        \cup { PAnd(<<PIns("m", <<g, Z>>), I("q")>>) : g \in OGroups }
        \* two items of one rule whose operand groups have the same shape (one and two levels deep) and other leaves
        \cup { PAnd(<<PIns("m", <<OOr(<<OAnd(<<X, Y>>), OAnd(<<Y, Z>>)>>)>>), PIns("m", <<OOr(<<OAnd(<<Z, X>>), OAnd(<<Y, Y>>)>>)>>)>>),
               PAnd(<<PIns("m", <<OOr(<<OPerm(<<X, Y>>), OPerm(<<Z, Z>>)>>)>>), PIns("m", <<OOr(<<OPerm(<<Y, Z>>), OPerm(<<X, X>>)>>)>>)>>),
               PAnd(<<PIns("m", <<OOr(<<X, Y>>), Z>>), PIns("m", <<OOr(<<Y, Z>>), Z>>)>>) }
OpSeqs == SeqsBetween({"x", "y", "z"}, 0, 3)
ListingsO == { WithAddrs(<< <<"m", o>> >>) : o \in OpSeqs }
        \cup { WithAddrs(<< <<"m", o>>, <<"q", <<>> >> >>) : o \in OpSeqs }
        \cup { WithAddrs(<< <<"m", o>>, <<"m", <<"z">> >> >>) : o \in SeqsBetween({"x", "y", "z"}, 1, 2) }
        \cup { WithAddrs(<< <<"m", o1>>, <<"m", o2>> >>) : o1 \in SeqsBetween({"x", "y", "z"}, 2, 2), o2 \in SeqsBetween({"x", "y", "z"}, 2, 2) }

\* ---- alternatives inside a $deref field ------------------------------------
DField(n, fp) == Node("dfield", n, <<fp>>, 1, 1)
FLit(n) == Node("flit", n, <<>>, 1, 1)
FOr(ks) == Node("for", "", ks, 1, 1)
Deref(fs) == Node("deref", "", fs, 1, 1)
PatternsD ==
    { PAnd(<<PIns("m", <<Deref(<<DField("main_reg", FOr(<<FLit("rax"), FLit("rbx")>>))>>)>>)>>),
      PAnd(<<PIns("m", <<Deref(<<DField("main_reg", FOr(<<FLit("rax"), FLit("rbx")>>)),
                                 DField("constant_offset", FOr(<<FLit("0x8"), FLit("0x10")>>))>>), X>>)>>),
      PAnd(<<PIns("m", <<Deref(<<DField("main_reg", FLit("rax")), DField("constant_offset", FOr(<<FLit("0x8"), FLit("0x80")>>))>>)>>)>>),
      PAnd(<<PIns("m", <<Deref(<<DField("main_reg", FLit("rax")),
                                 DField("register_multiplier", FOr(<<FLit("rbx"), FLit("rcx")>>)),
                                 DField("constant_multiplier", FOr(<<FLit("4"), FLit("8")>>))>>)>>)>>) }
MemOps == {"[%rax]", "[%rbx]", "[%rcx]", "[%rax+0x8]", "[%rbx+0x10]", "[%rax+0x80]", "[%rbx+0x1]",
           "[%rax+%rbx*4]", "[%rax+%rcx*8]", "[%rax+%rdx*4]", "[%rax+%rbx*2]", "[%rax+%rbx*4+0x8]", "%rax", "0x8"}
ListingsD == { WithAddrs(<< <<"m", <<o>> >> >>) : o \in MemOps }
        \cup { WithAddrs(<< <<"m", <<o, "x">> >> >>) : o \in MemOps }

\* ---- wide any-order groups: 4 and 5 children, two of which can match one and the same instruction ----
\* (`a' also matches the mnemonic `ab' under the default substring matching; a window in which ONE instruction
\* would have to serve two children is no arrangement of the children)
A1 == PIns("a", <<OLit("x")>>)
WideGroups == { PPerm(<<I("a"), I("ab"), I("c"), I("d"), I("e")>>), PPerm(<<I("a"), I("b"), I("c"), I("d"), I("e")>>),
                PPerm(<<I("a"), I("ab"), I("c"), I("d")>>), PPerm(<<I("a"), I("a"), I("c"), I("d"), I("e")>>),
                PPerm(<<I("a"), A1, I("c"), I("d"), I("e")>>) }
PatternsW == { PAnd(<<g>>) : g \in WideGroups } \cup { PAnd(<<g, I("q")>>) : g \in WideGroups }
\* five instructions: c, d, e at any three positions, the other two from a / ab / a x / b / z; plus a sixth `q'
FillW == { <<"a", <<>> >>, <<"ab", <<>> >>, <<"a", <<"x">> >>, <<"b", <<>> >>, <<"z", <<>> >> }
WindowsW == { s \in [1..5 -> FillW \cup { <<"c", <<>> >>, <<"d", <<>> >>, <<"e", <<>> >> }] :
                \A m \in {"c", "d", "e"} : Cardinality({ n \in 1..5 : s[n][1] = m }) = 1 }
ListingsW == { WithAddrs(s) : s \in WindowsW } \cup { WithAddrs(s \o << <<"q", <<>> >> >>) : s \in WindowsW }
        \cup { WithAddrs(SubSeq(s, 1, 4)) : s \in WindowsW }
Universe == [patterns |-> SetToSeq(PatternsI), listings |-> SetToSeq(ListingsI)]
UniverseW == [patterns |-> SetToSeq(PatternsW), listings |-> SetToSeq(ListingsW)]
UniverseO == [patterns |-> SetToSeq(PatternsO), listings |-> SetToSeq(ListingsO)]
UniverseD == [patterns |-> SetToSeq(PatternsD), listings |-> SetToSeq(ListingsD)]
=============================================================================
