----------------------------- MODULE Export_C02 -----------------------------
EXTENDS U_C02, Json, IOUtils
ASSUME JsonSerialize(IOEnv.JASM_OUT, [m |-> Universe, f |-> UniverseM])
VARIABLE x
Init == x = 0
Next == x' = x
=============================================================================
