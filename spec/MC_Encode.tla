------------------------------ MODULE MC_Encode ------------------------------
(***************************************************************************)
(* Design-level check of C10: over every instruction list (up to MaxLen    *)
(* instructions, 0-2 operands, fields over a small alphabet that contains  *)
(* the separator characters), the stream encoding is decodable and         *)
(* injective on lists whose fields are separator-free.  With Guard = FALSE *)
(* the same invariant is checked WITHOUT the separator-freeness premise;   *)
(* TLC must then find a counterexample (non-vacuity control).               *)
(***************************************************************************)
EXTENDS JasmText
CONSTANTS MaxLen, Guard
VARIABLES a, b, res
vars == <<a, b, res>>

Fields == {"x", "y,", "1", "a|", "b::c"}
Addrs  == {"1", "1f"}
OpsSet == {<<>>} \cup { <<f>> : f \in Fields } \cup { <<f, g>> : f \in {"x", "y,"}, g \in {"1", "a|"} }
Inss   == { Ins(ad, m, o) : ad \in Addrs, m \in {"x", "y,", "b::c"}, o \in OpsSet }
Lists  == UNION { [1..n -> Inss] : n \in 0..MaxLen }

Holds(L1, L2) ==
    /\ (Guard => ListOK(L1)) => (StreamWellFormed(Encode(L1)) /\ Decode(Encode(L1)) = L1)
    /\ ((Guard => (ListOK(L1) /\ ListOK(L2))) /\ L1 # L2) => Encode(L1) # Encode(L2)

Init == a \in Lists /\ b \in Lists /\ res = "?"
Next == res = "?" /\ res' = (IF Holds(a, b) THEN "ok" ELSE "bad") /\ UNCHANGED <<a, b>>
Spec == Init /\ [][Next]_vars
C10_Unambiguous == res # "bad"
=============================================================================
